module BZ = Z
open Model
let rec pos_of_bz (n:BZ.t) : positive =
  if BZ.equal n BZ.one then XH else if BZ.is_even n then XO (pos_of_bz (BZ.shift_right n 1)) else XI (pos_of_bz (BZ.shift_right n 1))
let z_of_bz n = if BZ.sign n = 0 then Z0 else if BZ.sign n > 0 then Zpos (pos_of_bz n) else Zneg (pos_of_bz (BZ.neg n))
let n_of_int i = if i = 0 then N0 else Npos (pos_of_bz (BZ.of_int i))
let rec bz_of_pos = function XH -> BZ.one | XO q -> BZ.shift_left (bz_of_pos q) 1 | XI q -> BZ.succ (BZ.shift_left (bz_of_pos q) 1)
let bz_of_z = function Z0 -> BZ.zero | Zpos p -> bz_of_pos p | Zneg p -> BZ.neg (bz_of_pos p)
let int_of_n = function N0 -> 0 | Npos p -> BZ.to_int (bz_of_pos p)
let rec nat_of_int n = if n = 0 then O else S (nat_of_int (n - 1))
let rec int_of_nat = function O -> 0 | S n -> 1 + int_of_nat n
let toks = ref []
let next () = match !toks with t :: r -> toks := r; t | [] -> failwith "eof"
let span () = let l = int_of_string (next ()) in let s = int_of_string (next ()) in let e = int_of_string (next ()) in ((n_of_int l, n_of_int s), n_of_int e)
let rec term () = match next () with
  | "L" -> let n = z_of_bz (BZ.of_string (next ())) in Lit (n, span ())
  | "R" -> let n = z_of_bz (BZ.of_string (next ())) in FunRef (n, span ())
  | "A" -> let a = term () in let n = z_of_bz (BZ.of_string (next ())) in ArgRef (a, n, span ())
  | "D" -> let b = term () in FunDef (b, span ())
  | "C" -> let f = term () in let k = int_of_string (next ()) in
           let rec args i = if i = 0 then [] else let a = term () in a :: args (i - 1) in
           let l = args k in FunCall (f, l, span ())
  | t -> failwith ("bad token " ^ t)
let pspan ((l, s), e) = Printf.sprintf "%d:%d:%d" (int_of_n l) (int_of_n s) (int_of_n e)
let pstr l = String.concat "," (List.map (fun c -> string_of_int (int_of_n c)) l)
let fuel = nat_of_int 400000
let () =
  try while true do
    let line = input_line stdin in
    (* line = <stdin lines as code points separated by ';' , lines by '|'> TAB <program> *)
    let i = String.index line '\t' in
    let inp = String.sub line 0 i and prog = String.sub line (i + 1) (String.length line - i - 1) in
    let lines = if inp = "-" then [] else List.map (fun l -> if l = "" then [] else List.map (fun c -> n_of_int (int_of_string c)) (String.split_on_char ',' l)) (String.split_on_char '|' inp) in
    toks := List.filter (fun s -> s <> "") (String.split_on_char ' ' prog);
    let (o, st) = run_main fuel (term ()) lines in
    let res = match o with
      | ODone (VStr s) -> "V " ^ pstr s
      | ODone _ -> "V?"
      | OErr e when (match e.e_vals with [VInt _; VInt n] -> BZ.equal (bz_of_z n) (BZ.of_int 999) | _ -> false) -> "UNMODELLED"
      | OErr e -> "E " ^ String.concat "," (List.map (function VInt n -> BZ.to_string (bz_of_z n) | _ -> "?") e.e_vals) ^ " @" ^ String.concat ";" (List.map pspan e.e_spans)
      | OLimit -> "LIMIT" | OFuel -> "FUEL" | OStuck _ -> "STUCK" in
    let evs = List.rev_map (function EB (d, _, sp) -> Printf.sprintf "B%d@%s" (int_of_nat d) (pspan sp) | EA (d, _, sp, k) -> Printf.sprintf "A%d@%s#%d" (int_of_nat d) (pspan sp) (int_of_n k)) st.m_dbg.events in
    Printf.printf "%s\tOUT %s\tREST %d\tEV %s\n" res (pstr st.m_world.w_out) (List.length st.m_world.w_in) (String.concat " " evs)
  done with End_of_file -> ()
