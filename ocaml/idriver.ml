module BZ = Z
open Imodel
let rec pos_of_bz (n:BZ.t) : positive =
  if BZ.equal n BZ.one then XH else if BZ.is_even n then XO (pos_of_bz (BZ.shift_right n 1)) else XI (pos_of_bz (BZ.shift_right n 1))
let z_of_bz n = if BZ.sign n = 0 then Z0 else if BZ.sign n > 0 then Zpos (pos_of_bz n) else Zneg (pos_of_bz (BZ.neg n))
let n_of_int i = if i = 0 then N0 else Npos (pos_of_bz (BZ.of_int i))
let rec bz_of_pos = function XH -> BZ.one | XO q -> BZ.shift_left (bz_of_pos q) 1 | XI q -> BZ.succ (BZ.shift_left (bz_of_pos q) 1)
let int_of_n = function N0 -> 0 | Npos p -> BZ.to_int (bz_of_pos p)
let name_of s = if s = "e" then [] else List.map (fun c -> n_of_int (int_of_string c)) (String.split_on_char '.' s)
let show_name l = if l = [] then "e" else String.concat "." (List.map (fun c -> string_of_int (int_of_n c)) l)
let toks = ref []
let next () = match !toks with t :: r -> toks := r; t | [] -> failwith "eof"
let rec tree () = match next () with
  | "F" -> TFile (n_of_int (int_of_string (next ())))
  | "D" -> let k = int_of_string (next ()) in
           let rec es i = if i = 0 then [] else let nm = name_of (next ()) in let t = tree () in (nm, t) :: es (i - 1) in
           TDir (es k)
  | t -> failwith ("bad " ^ t)
let () =
  try while true do
    let line = input_line stdin in
    match String.split_on_char '|' line with
    | [l; t] ->
        let lits = List.map (fun s -> z_of_bz (BZ.of_string s)) (String.split_on_char ',' l) in
        toks := List.filter (fun s -> s <> "") (String.split_on_char ' ' t);
        (match search lits (tree ()) with
         | Found (p, id) -> Printf.printf "FOUND %d %s\n" (int_of_n id) (String.concat "/" (List.map show_name p))
         | NotFound -> print_endline "NOTFOUND" | Ambiguous -> print_endline "AMBIGUOUS")
    | _ -> print_endline "BADLINE"
  done with End_of_file -> ()
