#!/bin/sh
# builds the OCaml drivers from the fresh extraction (coq/*.ml); rebuilt only when an input changed
cd "$(dirname "$0")" || exit 1
mkdir -p build
b() { # name model driver
  if [ ! -x "$1" ] || [ "../coq/$2.ml" -nt "$1" ] || [ "$3.ml" -nt "$1" ]; then
    cp "../coq/$2.ml" "../coq/$2.mli" "$3.ml" build/ &&
    (cd build && ocamlfind ocamlopt -O3 -package zarith,unix -linkpkg -w -a "$2.mli" "$2.ml" "$3.ml" -o "../$1" 2>/dev/null ||
                 ocamlfind ocamlopt -package zarith,unix -linkpkg -w -a "$2.mli" "$2.ml" "$3.ml" -o "../$1") || exit 1
  fi
}
b driver model driver
b fdriver fmodel fdriver
b idriver imodel idriver
