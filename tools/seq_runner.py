#!/venv/bin/python
"""runs a SEQUENCE of programs in this one process (fresh interpreter process per invocation) and prints one JSON list of observations.
stdin: JSON {"repo": path, "cwd": path or null, "cases": [{"text": ..., "stdin": "...", "filename": "<t>"}]}"""
import sys, os, io, json, re, signal
job = json.load(sys.stdin)
sys.path.insert(0, job["repo"])
if job.get("cwd"): os.chdir(job["cwd"])
from pbhhg_py import abstract_syntax as AS
from pbhhg_py.main import main
class TO(Exception): pass
def alarm(*a): raise TO()
signal.signal(signal.SIGALRM, alarm)
out = []
def disk_ops(ops):          # what happens to the disk BETWEEN two evaluations (paths relative to the working directory)
    import shutil
    for o in ops:
        k, p = o["op"], o["path"]
        if k == "rmtree": shutil.rmtree(p, ignore_errors=True)
        elif k == "unlink": os.unlink(p)
        elif k == "write": open(p, "w", encoding="utf-8").write(o["text"])
        elif k == "symlink": os.symlink(o["to"], p)
        elif k == "mkdir": os.makedirs(p, exist_ok=True)
for c in job["cases"]:
    disk_ops(c.get("disk", []))
    old = sys.stdin, sys.stdout; sys.stdin = io.StringIO(c.get("stdin", "")); sys.stdout = buf = io.StringIO()
    signal.setitimer(signal.ITIMER_REAL, 5.0)
    try:
        try: r = "V " + " | ".join(main(c.get("filename", "<t>"), c["text"], False))
        except AS.UnsuspectedHangeulError as e:
            r = "E " + ",".join(str(v.value) if isinstance(v, AS.Integer) else "?" for v in e.err.value) + " MSG " + str(e.err.message) + " @" + ";".join(f"{m.line_no}:{m.start_col}:{m.end_col}" for m in e.err.metadatas)
        except TO: r = "TIMEOUT"
        except RuntimeError as e: r = "LIMIT" if "Maximum Stack Size" in str(e) else "HOST " + type(e).__name__
        except BaseException as e: r = "HOST " + type(e).__name__ + ": " + str(e)[:80]
    finally:
        signal.setitimer(signal.ITIMER_REAL, 0); rest = sys.stdin.read(); sys.stdin, sys.stdout = old
    out.append([re.sub(r"0x[0-9a-fA-F]+", "0x?", r), buf.getvalue(), rest])
print(json.dumps(out, ensure_ascii=False))
