import sys, io, random, signal, subprocess, collections, time
sys.path.insert(0, '/repo'); sys.path.insert(0, '/tmp/genprobe')
from pbhhg_py import parse, interpret, abstract_syntax as AS, main as M
import gen as Gm
KIND = {"Integer": 1, "Boolean": 2, "String": 3, "List": 4, "Dict": 5, "IO": 7, "ErrorValue": 8, "Nil": 9, "Bytes": 11}
class Rec(interpret.DebuggerBase):
    def __init__(s): s.ev = []
    def sp(s, e): m = e.expr.metadata; return f"{m.line_no}:{m.start_col}:{m.end_col}"
    def before_eval(s, d, e): s.ev.append(f"B{d}@{s.sp(e)}")
    def after_eval(s, d, e, r):
        k = 0 if isinstance(r, BaseException) else KIND.get(type(r).__name__, 6)
        s.ev.append(f"A{d}@{s.sp(e)}#{k}")
def ser(a):
    m = a.metadata; sp = f"{m.line_no} {m.start_col} {m.end_col}"
    if isinstance(a, AS.Literal): return f"L {a.value} {sp}"
    if isinstance(a, AS.FunRef): return f"R {a.rel} {sp}"
    if isinstance(a, AS.ArgRef): return f"A {ser(a.relA)} {a.relF} {sp}"
    if isinstance(a, AS.FunDef): return f"D {ser(a.body)} {sp}"
    return f"C {ser(a.fun)} {len(a.argv)} " + " ".join(ser(x) for x in a.argv) + f" {sp}"
class TO(Exception): pass
def _al(*a): raise TO()
signal.signal(signal.SIGALRM, _al)
def impl(ast0, lines):
    rec = Rec(); src = "".join(l + "\n" for l in lines)
    sys.stdin = io.StringIO(src); out = io.StringIO(); old = sys.stdout; sys.stdout = out
    signal.setitimer(signal.ITIMER_REAL, 2.0)
    try:
        try:
            r = interpret.evaluate(M.formatter(AS.Expr(ast0, AS.Env([], [])), False), debugger=rec)
            res = "V " + ",".join(str(ord(c)) for c in r)
        except AS.UnsuspectedHangeulError as e:
            codes = ",".join(str(v.value) if isinstance(v, AS.Integer) else "?" for v in e.err.value)
            res = "E " + codes + " @" + ";".join(f"{m.line_no}:{m.start_col}:{m.end_col}" for m in e.err.metadatas)
        except RuntimeError as e: res = "LIMIT" if "Maximum" in str(e) else "HOST RuntimeError"
        except TO: res = "TIMEOUT"
        except BaseException as e: res = "HOST " + type(e).__name__
    finally:
        signal.setitimer(signal.ITIMER_REAL, 0); sys.stdout = old
    rest = len(sys.stdin.read().split("\n")) - 1 if src else 0
    return f"{res}\tOUT {','.join(str(ord(c)) for c in out.getvalue())}\tREST {rest}\tEV {' '.join(rec.ev)}"
R = random.Random(int(sys.argv[1])); n = int(sys.argv[2]); g = Gm.G(R)
cases = []; t0 = time.time()
while len(cases) < n:
    t = R.choice([Gm.INT, Gm.INT, Gm.BOOL, Gm.LIST(Gm.INT), Gm.STR, Gm.EXC, Gm.FUN([Gm.INT], Gm.INT), Gm.LIST(Gm.BOOL), Gm.BYTES, Gm.LIST(Gm.STR), Gm.BYTES])
    ws = Gm.words(g.gen(t, [], R.randrange(2, 22))); text = " ".join(ws)
    asts = parse.parse("<t>", text)
    if len(asts) != 1: continue
    lines = []
    cases.append((text, ser(asts[0]), lines, impl(asts[0], lines)))
t1 = time.time()
inp = "".join(("-" if not l else "|".join(",".join(str(ord(c)) for c in x) for x in l)) + "\t" + s + "\n" for _, s, l, _ in cases)
out = subprocess.run(["/tmp/dev2/driver"], input=inp, capture_output=True, text=True).stdout.split("\n")[:-1]
t2 = time.time()
st = collections.Counter(); bad = []
for (text, s, l, a), b in zip(cases, out):
    ra, rb = a.split("\t")[0], b.split("\t")[0]
    if ra.startswith(("TIMEOUT", "LIMIT")) or rb.startswith(("FUEL", "UNMODELLED")): st["skip:" + rb.split()[0]] += 1; continue
    st[ra[0] if ra[0] in "VE" else ra] += 1
    if a == b: st["agree"] += 1
    else:
        fa, fb = a.split("\t"), b.split("\t")
        which = [n for n, x, y in zip(["res", "out", "rest", "ev"], fa, fb) if x != y]
        bad.append((text, which, ra, rb))
print(dict(st), "disagreements", len(bad), "| impl %.1fs model %.1fs" % (t1 - t0, t2 - t1))
cls = collections.Counter(tuple(b[1]) for b in bad); print(dict(cls))
for b in [x for x in bad if 'IndexError' not in x[2]][:6]: print(b)
tot_ev = sum(len(a.split("\tEV ")[1].split()) for _, _, _, a in cases)
print("events compared:", tot_ev, "distinct programs:", len(set(c[0] for c in cases)))
for c, o in list(zip(cases, out))[:3]: print(c[0][:80], "||", c[3][:120], "||", o[:120])
