"""C04: the edge-value sweep (every built-in, module function and callable kind x argument kinds x arities x edge values);
   C05: iteration ladders under a low host recursion limit, recursion depths across the frame limit, nesting ladders."""
import sys, os, io, itertools, random, collections, signal, time
import vlib, progen as G
from vlib import mods, pmap
from slices_core import N
E = G.enc

def _b(bs): n = int.from_bytes(bs, 'little'); return f"({E(n)} ㄴ {E(len(bs))} ㅂ ㅂ ㅂㅎㄷ ㅎㄷ ㅎㄴ)" if bs else "(ㄱ ㄴ ㄱ ㅂ ㅂ ㅂㅎㄷ ㅎㄷ ㅎㄴ)"
def _s(txt): return f"({_b(txt.encode())} ㄱ ㄴ ㅂ ㅂ ㅂㅎㄷ ㅎㄷ ㅎㄴ)"
INF = "(ㅂ ㅅ ㅁ ㅂㅎㄹ)"
VALS = {
 "i0": "ㄱ", "i1": "ㄴ", "i-1": "ㄴㄱ", "i2": "ㄷ", "i5000": E(5000), "ibig": E(2**64), "i-big": E(-2**64), "ihuge": E(10**400),
 "f0": "(ㄱ ㅅㅅㅎㄴ)", "f1.5": "(ㄹ ㅅㅅㅎㄴ ㄷ ㄴㄱ ㅅㅎㄷ ㄱㅎㄷ)", "f-0": "(ㄱ ㅅㅅㅎㄴ ㄴㄱ ㄱㅎㄷ)", "finf": INF, "f-inf": f"(ㄴㄱ {INF} ㄱㅎㄷ)", "fnan": "(ㅂ ㅅ ㄴ ㅂㅎㄹ)", "f1e308": f"({E(10**308)} ㅅㅅㅎㄴ)",
 "ci": "(ㄱ ㄴ ㅂㅅㅎㄷ)", "c0": "(ㄱ ㄱ ㅂㅅㅎㄷ)", "cinf": f"({INF} ㄴ ㅂㅅㅎㄷ)",
 "bT": "(ㅈㅈㅎㄱ)", "bF": "(ㄱㅈㅎㄱ)",
 "s''": "(ㅁㅈㅎㄱ)", "s'1'": "(ㄴ ㅁㅈㅎㄴ)", "s'ab'": _s("ab"), "s'1.5'": _s("1.5"), "s'nope/x'": _s("nope/x"),
 "y''": _b(b""), "y'\\x01\\x02'": _b(b"\x01\x02"), "y'\\xff'": _b(b"\xff"),
 "l[]": "(ㅁㄹㅎㄱ)", "l[1]": "(ㄴ ㅁㄹㅎㄴ)", "l['1','2']": "(ㄴ ㅁㅈㅎㄴ ㄷ ㅁㅈㅎㄴ ㅁㄹㅎㄷ)", "l[1,'1']": "(ㄴ ㄴ ㅁㅈㅎㄴ ㅁㄹㅎㄷ)", "l[bomb]": "(ㄴ ㄱ ㄴㄴㅎㄷ ㅁㄹㅎㄴ)",
 "l['1',y]": f"(ㄴ ㅁㅈㅎㄴ {_b(b' ')} ㅁㄹㅎㄷ)", "l[y,'1']": f"({_b(b'0')} ㄴ ㅁㅈㅎㄴ ㅁㄹㅎㄷ)", "l[y,y]": f"({_b(b'a')} {_b(b'b')} ㅁㄹㅎㄷ)",
 "d{}": "(ㅅㅈㅎㄱ)", "d{0:1}": "(ㄱ ㄴ ㅅㅈㅎㄷ)",
 "fn": "(ㄱㅇㄱ ㅎ)", "fnK": "(ㄴ ㅎ)",
 "ioR": "(ㄱ ㄱㅅㅎㄴ)", "ioI": "(ㄹㅎㄱ)", "ioP": "(ㄴ ㅁㅈㅎㄴ ㅈㄹㅎㄴ)", "ioB": "((ㄱ ㄱㅅㅎㄴ) ㄱㅅ ㄱㄹㅎㄷ)", "ioB3": "((ㄹㅎㄱ) (ㄱㅇㄱ ㄱㅅㅎㄴ ㅎ) ㄱㅅ ㄱㄹㅎㄹ)", "l[ioB]": "(((ㄱ ㄱㅅㅎㄴ) ㄱㅅ ㄱㄹㅎㄷ) ㅁㄹㅎㄴ)",
 "e[]": "(ㄷㅂㅎㄱ)", "e[0]": "(ㄱ ㄷㅂㅎㄴ)",
 "nil": "(ㅂㄱㅎㄱ)",
}
SMALL = ["i0", "i1", "i-1", "ihuge", "f0", "finf", "fnan", "s''", "s'ab'", "y''", "l[]", "l[1]", "d{}", "fn", "bT", "nil", "e[0]", "ioR", "ioB", "ci"]
BUILTINS = "ㄱ ㄷ ㅅ ㄴㄴ ㄴㅁ ㄷㅂ ㅁㄹ ㅁㅈ ㅂㄱ ㅂㅅ ㅅㅅ ㅅㅈ ㅈㅅ ㄷㅈ ㅅㄷ ㄴㄱ ㅁㅂ ㅂㅂ ㄹ ㅈㄹ ㄱㅅ ㄱㄹ ㄱㄴ ㄴ ㅁ ㅈ ㅈㅈ ㄱㅈ ㅂ ㅈㄷ ㅂㅈ ㅁㄷ ㅅㅂ ㅅㄹ ㅂㄹ ㄱㅁ".split()
MODS = {"bit." + k: f"(ㅂ ㅂㄷ {k} ㅂㅎㄹ)" for k in "ㄱ ㄷ ㅁ ㅂ ㅈ".split()}
MODS.update({"math." + k: f"(ㅂ ㅅ {k} ㅂㅎㄹ)" for k in "ㄱ ㄴㄴ ㅁㄴ ㅈㄷ ㄹㄱ ㅅㄴ ㄴㅅ ㄱㅅ ㅅㄱ ㄷㄴ ㄴㄷ".split()})
MODS.update({"round." + k: f"(ㅂ ㅅ ㅂㄹ {k} ㅂㅎㅁ)" for k in "ㄱ ㄴ ㄷ ㄹ ㅁ".split()})
MODS["codec"] = "(ㅂ ㅂ ㅂㅎㄷ)"
CALLEES = {k: v for k, v in VALS.items() if k[0] in "bdcslye"}

def _classify(item):
    tag, prog = item
    parse, interpret, AS, M = mods()
    old = sys.stdin, sys.stdout; sys.stdin = io.StringIO(""); sys.stdout = io.StringIO()
    signal.signal(signal.SIGALRM, vlib._alarm); signal.setitimer(signal.ITIMER_REAL, 2.0)
    try:
        try: M.main("<t>", prog, False); return "value"
        except AS.UnsuspectedHangeulError as e:
            v = e.err.value
            ok = len(e.err.metadatas) >= 1 and all(isinstance(x, AS.Integer) for x in v[:2]) if len(v) >= 2 and isinstance(v[0], AS.Integer) and v[0].value == 5 else True
            return "langerr" if ok else "HOST malformed-language-exception"
        except vlib._TO: return "timeout"
        except RecursionError as e: return vlib.host_site(e)
        except RuntimeError as e: return "limit" if "Maximum Stack Size" in str(e) else vlib.host_site(e)
        except MemoryError as e: return vlib.host_site(e) if tag.startswith("direct:") else "timeout"
        except BaseException as e: return vlib.host_site(e)
    finally:
        signal.setitimer(signal.ITIMER_REAL, 0); sys.stdin, sys.stdout = old

def danger(name, args):
    if name in ("ㅅ", "bit.ㅈ") and len(args) >= 2 and args[1] in ("ibig", "i-big", "ihuge"): return True
    if name == "ㅅ" and len(args) >= 2 and args[0] in ("ibig", "i-big", "i5000", "ihuge") and args[1] in ("i5000", "ihuge", "ibig"): return True
    if name == "ㄱ" and args.count("ihuge") >= 3: return True
    return False

def c04_sweep(r, seed, tier, model_ok):
    """every built-in, built-in module function and callable value kind x argument values of all twelve kinds with edge values (empty, zero,
    negative, 2^64, 10^400, inf, nan, 1e308, empty / ill-typed lists, strings that look like paths) x arities 0..3 (+ second-order callables,
    codec constructors): what escapes main.main must be a value, a language-level exception (code list starting with the marker, with a
    location), the evaluator's explicit limit, or a timeout - never a host exception"""
    R = random.Random(seed * 7919 + 0xC04); names = list(VALS); items = []
    def add_all(fname, ftext, full3):
        for ar in range(0, 4):
            pool = names if ar <= 2 else SMALL
            combos = list(itertools.product(pool, repeat=ar))
            if ar == 3 and not full3: combos = R.sample(combos, 250)
            if ar == 2 and tier == "quick" and not full3: combos = R.sample(combos, 700)
            for args in combos:
                if danger(fname, args): continue
                items.append((f"{fname}({','.join(args)})", " ".join(VALS[a] for a in args) + f" {ftext} ㅎ{E(ar)}"))
    full = tier != "quick"
    for f in BUILTINS: add_all(f, f, full)
    for f, t in MODS.items(): add_all(f, t, full)
    for f, t in CALLEES.items(): add_all("call:" + f, t, full)
    for mk in ["ㄴㄱ", "ㅁㅂ", "ㅂㅂ"]:
        for inner in ["ㄷ", "ㅈㄷ", "(ㄱㅇㄱ ㅎ)", "(ㅈㅈㅎㄱ)", "(ㅁㄹㅎㄱ)", "ㅁㄹ"]: add_all(f"{mk}[{inner}]", f"({inner} {mk}ㅎㄴ)", False)
    items.append(("pipe0()", "ㄴㄱㅎㄱ ㅎㄱ"))
    for sch in ["ㄱ", "ㄴ", "ㄷ", "ㄹ", "ㅁ", "ㄴㄱ"]:
        for w in ["ㄱ", "ㄴ", "ㄷ", "ㄹ", "ㅁ", "ㄴㄱ", E(2**64)]:
            for en in ["", "(ㅈㅈㅎㄱ)", "(ㄱㅈㅎㄱ)"]:
                n = 2 + (1 if en else 0)
                for a in names: items.append((f"codec[{sch},{w},{en}]({a})", f"{VALS[a]} ({sch} {w} {en} ㅂ ㅂ ㅂㅎㄷ ㅎ{E(n)}) ㅎㄴ"))
    # built-in module paths: every literal path of length 1..4 over the names that occur in the module tree (and some that do not)
    PW = ["ㅂ", "ㅅ", "ㅂㄷ", "ㅂㄹ", "ㄱ", "ㄴ", "ㅁ", "ㅈ", "ㅈㄷ", "ㄷ"]
    for ln in range(1, 5):
        for path in itertools.product(PW, repeat=ln):
            if ln == 4 and tier == "quick" and R.random() < .6: continue
            items.append((f"import({' '.join(path)})", " ".join(path) + f" ㅂㅎ{E(ln)}"))
            if ln <= 2: items.append((f"import({' '.join(path)})(1)", f"ㄴ ({' '.join(path)} ㅂㅎ{E(ln)}) ㅎㄴ"))
    # numeric strings in every base, malformed
    for st in ["", "1", "-1", "1.5", "1e5", "z", "१२", " 1 ", "1_0", "0x1", "1.5.2", ".", "-", "1+2i", "i", "nan", "inf", "9" * 400]:
        for base in ["", "ㄱ", "ㄴ", "ㄷ", E(10), E(36), E(37), "ㄴㄱ"]:
            for f in ["ㅈㅅ", "ㅅㅅ", "ㅂㅅ"]: items.append((f"{f}('{st[:8]}',{base})", f"{_s(st) if st else '(ㅁㅈㅎㄱ)'} {base} {f} ㅎ{E(2 if base else 1)}"))
    # shift counts and exponents that the host refuses AT ONCE (no long computation): 2^62 .. 2^100 - an immediate OverflowError / MemoryError of the
    # host is a host escape like any other (the general sweep leaves these operand pairs out because slightly smaller ones compute for minutes)
    for cnt_ in (2**62, 2**63, 2**64, 2**100, 10**30):
        for opnd in (1, -1, 0, 7, 2**70):
            items.append((f"direct:bit.ㅈ({opnd},{cnt_})", f"{E(opnd)} {E(cnt_)} (ㅂ ㅂㄷ ㅈ ㅂㅎㄹ) ㅎㄷ"))
            items.append((f"direct:bit.ㅈ({opnd},{-cnt_})", f"{E(opnd)} {E(-cnt_)} (ㅂ ㅂㄷ ㅈ ㅂㅎㄹ) ㅎㄷ"))
            items.append((f"direct:bit.ㅈ-under-try({opnd},{cnt_})", f"({E(opnd)} {E(cnt_)} (ㅂ ㅂㄷ ㅈ ㅂㅎㄹ) ㅎㄷ) ((ㅈㅈㄱ) ㅎ) ㅅㄷㅎㄷ"))
    # converter widths that the host can index but cannot allocate (2^48 .. 2^62 bytes: an immediate MemoryError), or cannot even index (2^63 ..:
    # OverflowError), every scheme, with and without a byte order, alone and under ㅅㄷ: a value error of the language like any other refused width
    for w_ in (2**48, 2**55, 2**62, 2**63 - 1, 2**63, 2**64, 2**100, -2**62):
        for sch in (0, 1, 2):
            for arg in (E(0), E(1), E(-1), E(255), "(ㅁㅈㅎㄱ)"):
                for order in ("", E(0), E(1)):
                    prog = f"{arg} ({E(sch)} {E(w_)} {order} ㅂ ㅂ ㅂㅎㄷ ㅎ{E(3 if order else 2)}) ㅎㄴ"
                    items.append((f"direct:codec({sch},{w_},{order})({arg})", prog))
                    if order == "": items.append((f"direct:codec-under-try({sch},{w_})({arg})", f"({prog}) ((ㅈㅈㄱ) ㅎ) ㅅㄷㅎㄷ"))
    d = os.path.join(vlib.ROOT, ".scratch"); os.makedirs(d, exist_ok=True); cwd = os.getcwd(); os.chdir(d)        # ㄱㄴ / ㅂ with path-like strings run here
    try: out = pmap(_classify, items, chunksize=400)
    finally: os.chdir(cwd)
    cnt = collections.Counter(o.split(" at ")[0] if o.startswith("HOST") else o for o in out)
    sites = collections.defaultdict(list)
    for (tag, prog), o in zip(items, out):
        if o.startswith("HOST"): sites[o].append((tag, prog))
    bad = [dict(program=min((p for _, p in v), key=len), call=v[0][0], impl=k, occurrences=len(v), model="a value, a language-level exception or the explicit limit", which=["host-escape"]) for k, v in sorted(sites.items())]
    r.slice("edge_value_sweep", len(items), len({p for _, p in items}), [items[1234][1], items[-1][1]], dict(outcomes=dict(cnt), callees=len(BUILTINS) + len(MODS) + len(CALLEES), values=len(VALS)),
            "callee x argument-value tuples (arities 0..3; quick samples arity 2-3, thorough is the full product); distinct = distinct programs", bad)

# ------------------------------------------------------------------ C05
def _ladder_one(case):
    """one program in a FRESH evaluation with the host recursion limit lowered: any host-depth growth shows early"""
    parse, interpret, AS, M = mods()
    sys.setrecursionlimit(case.get("reclimit", 400))
    rec = None
    if case.get("observer"):
        class Rec(interpret.DebuggerBase):
            def __init__(s): s.n = 0; s.maxd = 0
            def before_eval(s, d, e): s.n += 1; s.maxd = max(s.maxd, d)
            def after_eval(s, d, e, rr): pass
        rec = Rec()
    peak = [0, 0]; Orig = interpret.StackFrame
    if case.get("frames"):
        # count the evaluator frames that are alive (= len(tail) in evaluate) from outside: a subclass installed for this run only
        class CountingFrame(Orig):
            def __init__(s, request): super().__init__(request); peak[1] += 1; peak[0] = max(peak[0], peak[1])
            def communicate(s, response):
                res_ = super().communicate(response)
                if isinstance(res_, interpret.ComputationResult): peak[1] -= 1
                return res_
        interpret.StackFrame = CountingFrame
    old = sys.stdin, sys.stdout; sys.stdin = io.StringIO(""); sys.stdout = io.StringIO()
    signal.signal(signal.SIGALRM, vlib._alarm); signal.setitimer(signal.ITIMER_REAL, case.get("tlimit", 60))
    t = time.time()
    try:
        try:
            asts = parse.parse("<t>", case["text"])
            res = "V " + interpret.evaluate(M.formatter(AS.Expr(asts[0], AS.Env([], [])), False), debugger=rec)[:40]
        except AS.UnsuspectedHangeulError as e: res = "E " + ",".join(str(v.value) if isinstance(v, AS.Integer) else "?" for v in e.err.value)
        except vlib._TO: res = "TIMEOUT"
        except RecursionError as e: res = vlib.host_site(e)
        except RuntimeError as e: res = "LIMIT" if "Maximum Stack Size" in str(e) else vlib.host_site(e)
        except MemoryError as e: res = "HOST MemoryError"
        except BaseException as e: res = vlib.host_site(e)
    finally:
        signal.setitimer(signal.ITIMER_REAL, 0); sys.stdin, sys.stdout = old; sys.setrecursionlimit(1000); interpret.StackFrame = Orig
    return res, round(time.time() - t, 2), (rec.maxd if rec else None), peak[0]

def io_device_faults(r, seed, tier, model_ok):
    """the standard streams refusing service: stdout on a device that rejects the write - noticed at once (write-through stream) or only when the
    buffer is flushed (block-buffered stream: a pipe, a file) - and stdin failing to read: ㅈㄹ / ㄹ must raise the language's OS exception
    (errno kept), which the reject handler of ㄱㄹ receives; never a host OSError"""
    import errno as _errno
    parse, interpret, AS, M = vlib.mods()
    class RawOut(io.RawIOBase):
        def __init__(s, code): s.code = code
        def writable(s): return True
        def write(s, b): raise OSError(s.code, os.strerror(s.code))
    class RawIn(io.RawIOBase):
        def __init__(s, code): s.code = code
        def readable(s): return True
        def readinto(s, b): raise OSError(s.code, os.strerror(s.code))
    def run(prog, out_mode, in_mode, code):
        old = sys.stdin, sys.stdout
        if out_mode == "ok": so = io.StringIO()
        else: so = io.TextIOWrapper(io.BufferedWriter(RawOut(code), buffer_size=(8192 if out_mode == "buffered" else 1)), encoding="utf-8", newline="\n", write_through=(out_mode == "write-through"))
        si = io.StringIO("l1\nl2\n") if in_mode == "ok" else io.TextIOWrapper(io.BufferedReader(RawIn(code)), encoding="utf-8")
        sys.stdin, sys.stdout = si, so
        try:
            try: res = "V " + " | ".join(M.main("<t>", prog, False))
            except AS.UnsuspectedHangeulError as e: res = "E " + ",".join(str(v.value) if isinstance(v, AS.Integer) else "?" for v in e.err.value)
            except BaseException as e: res = vlib.host_site(e)
        finally:
            sys.stdin, sys.stdout = old
            try: so.detach() if out_mode != "ok" else None
            except Exception: pass
        return res
    bad = []; cnt = collections.Counter(); n = 0
    PR = "(ㄴ ㅁㅈㅎㄴ ㅈㄹㅎㄴ)"; RD = "(ㄹㅎㄱ)"
    for code in (_errno.ENOSPC, _errno.EPIPE, _errno.EIO):
        for out_mode in ("buffered", "write-through"):
            for prog, want in ((PR, f"E 5,-63,{code}"), (f"{PR} ㄱㅅ ((ㅈ ㄱㅅㅎㄴ) ㅎ) ㄱㄹㅎㄹ", "V 7"), (f"{PR} ㄱㅅ (ㄱㅇㄱ ㄱㅅㅎㄴ ㅎ) ㄱㄹㅎㄹ", f"V <예외: [5, -63, {code}]>"),
                               (f"(ㄱ ㄱㅅㅎㄴ) (({PR}) ㅎ) ㄱㄹㅎㄷ", f"E 5,-63,{code}"), (f"((ㄱ ㄱㅅㅎㄴ) (({PR}) ㅎ) ㄱㄹㅎㄷ) ㄱㅅ ((ㄷ ㄱㅅㅎㄴ) ㅎ) ㄱㄹㅎㄹ", "V 2"),
                               (f"{PR} (({PR}) ㅎ) ((ㄹ ㄱㅅㅎㄴ) ㅎ) ㄱㄹㅎㄹ", "V 3"), ("(ㄱ ㄱㅅㅎㄴ)", "V 0")):
                got = run(prog, out_mode, "ok", code); n += 1; cnt[f"stdout-{out_mode}:" + got.split()[0]] += 1
                if got != want: bad.append(dict(program=prog, impl=got, model=f"{want} (stdout refuses the write with errno {code}, stream {out_mode})", which=["device-fault"]))
        for prog, want in ((RD, f"E 5,-63,{code}"), (f"{RD} ㄱㅅ ((ㅈ ㄱㅅㅎㄴ) ㅎ) ㄱㄹㅎㄹ", "V 7"), (f"{RD} ㄱㅅ (ㄱㅇㄱ ㄱㅅㅎㄴ ㅎ) ㄱㄹㅎㄹ", f"V <예외: [5, -63, {code}]>")):
            got = run(prog, "ok", "fail", code); n += 1; cnt["stdin:" + got.split()[0]] += 1
            if got != want: bad.append(dict(program=prog, impl=got, model=f"{want} (stdin fails to read with errno {code})", which=["device-fault"]))
    r.slice("io_device_faults", n, n, [PR], dict(cnt), "ㅈㄹ on a stdout whose device rejects the write (noticed at the write, or only at the flush of a block-buffered stream) and ㄹ on a stdin that fails: language OS exception with the errno, delivered to the reject handler", bad[:40])

def loops(n):
    """tail-loop families, each applied to n iterations: name -> (program, expected printed result)"""
    dec = "ㄱㅇㄱ ㄴㄱ ㄷㅎㄷ"; z = "ㄱㅇㄱ ㄱ ㄴㅎㄷ"            # k - 1 ; k == 0     (k = argument 0 of the innermost function)
    g_body = f"ㄱ ({dec} ㄴㅇ ㅎㄴ) ({z}) ㅎㄷ"                  # inside g: (j == 0)(0, f(j - 1)),  f = the function one level up
    return {
     # EXACTLY the program of Loops2.countdown (proved for every N): f(k) = (0 < k)(f(k + -1), 0)
     "proved-countdown": (f"{E(n)} (({dec} ㄱㅇ ㅎㄴ) ㄱ (ㄱ ㄱㅇㄱ ㅈㅎㄷ) ㅎㄷ ㅎ) ㅎㄴ", "0"),
     "self":         (f"{E(n)} (ㄱ ({dec} ㄱㅇ ㅎㄴ) ({z}) ㅎㄷ ㅎ) ㅎㄴ", "0"),                                             # f(k) = (k==0)(0, f(k-1))
     # f(k, acc) = (acc < 0 or k == 0)(acc, f(k-1, acc+1)): the test forces the accumulator each round (a LAZY accumulator would build a chain
     # of n pending additions, whose evaluation is ordinary nested recursion of depth n - see "lazy-accumulator" below)
     "accumulator":  (f"{E(n)} ㄱ ((ㄴㅇㄱ) ({dec} (ㄴㅇㄱ ㄴ ㄷㅎㄷ) ㄱㅇ ㅎㄷ) ((ㄴㅇㄱ ㄱ ㅈㅎㄷ) ({z}) ㄷㅎㄷ) ㅎㄷ ㅎ) ㅎㄷ", str(n)),
     "via-identity": (f"{E(n)} (ㄱ (({dec} ㄱㅇ ㅎㄴ) (ㄱㅇㄱ ㅎ) ㅎㄴ) ({z}) ㅎㄷ ㅎ) ㅎㄴ", "0"),                               # the recursive call passes through a lazy identity
     "via-selector": (f"{E(n)} (ㄱ ({dec} ㄱㅇ ㅎㄴ) ({z}) (ㄱㅇㄱ ㄴㅇㄱ ㄷㅇㄱ ㅎㄷ ㅎ) ㅎㄹ ㅎ) ㅎㄴ", "0"),                     # sel(a, b, c) = c(a, b) written by the user
     # f(k, best) = (k == 0)(best, f(k - 1, (best < k)(k, best))): lazily passed state updated by a selection that ends in a bare reference to an already forced value
     #   (the loop test looks at `best` every round, so the state is forced as the loop goes)
     "running-max":  (f"{E(n)} ㄱ ((ㄴㅇㄱ) ({dec} ((ㄱㅇㄱ) (ㄴㅇㄱ) ((ㄴㅇㄱ) (ㄱㅇㄱ) ㅈㅎㄷ) ㅎㄷ) ㄱㅇ ㅎㄷ) ((ㄴㅇㄱ ㄱ ㅈㅎㄷ) ({z}) ㄷㅎㄷ) ㅎㄷ ㅎ) ㅎㄷ", str(n)),
     # loop(i, best) = (best < n)(loop(i + 1, (best < i)(i, best)), best) from (0, 0): counts up, the new state is a bare reference to the forced counter
     "running-max-up": (f"ㄱ ㄱ (((ㄱㅇㄱ ㄴ ㄷㅎㄷ) ((ㄱㅇㄱ) (ㄴㅇㄱ) (ㄴㅇㄱ ㄱㅇㄱ ㅈㅎㄷ) ㅎㄷ) ㄱㅇ ㅎㄷ) (ㄴㅇㄱ) (ㄴㅇㄱ {E(n)} ㅈㅎㄷ) ㅎㄷ ㅎ) ㅎㄷ", str(n)),
     "mutual":       (f"{E(n)} (ㄱ ({dec} ({g_body} ㅎ) ㅎㄴ) ({z}) ㅎㄷ ㅎ) ㅎㄴ", "0"),                                      # f calls g (defined inside f), g calls f
     # the recursive call made THROUGH another callable, still in tail position: a one-stage pipe of f, a two-stage pipe (decrement, then f), f taken
     # out of a list / a dictionary by calling it, f through a collect function, and a Boolean selection nested twice
     "via-pipe":     (f"{E(n)} (ㄱ ({dec} (ㄱㅇ ㄴㄱㅎㄴ) ㅎㄴ) ({z}) ㅎㄷ ㅎ) ㅎㄴ", "0"),
     "via-pipe-2":   (f"{E(n)} (ㄱ (ㄱㅇㄱ ((ㄱㅇㄱ ㄴㄱ ㄷㅎㄷ) ㅎ) ㄱㅇ ㄴㄱㅎㄷ ㅎㄴ) ({z}) ㅎㄷ ㅎ) ㅎㄴ", "0"),
     "via-list-call": (f"{E(n)} (ㄱ ({dec} (ㄱ (ㄱㅇ ㅁㄹㅎㄴ) ㅎㄴ) ㅎㄴ) ({z}) ㅎㄷ ㅎ) ㅎㄴ", "0"),
     "via-dict-call": (f"{E(n)} (ㄱ ({dec} (ㄴ (ㄴ ㄱㅇ ㅅㅈㅎㄷ) ㅎㄴ) ㅎㄴ) ({z}) ㅎㄷ ㅎ) ㅎㄴ", "0"),
     "via-collect":  (f"{E(n)} (ㄱ ((({dec}) ㅁㄹㅎㄴ) (ㄱㅇ ㅁㅂㅎㄴ) ㅎㄴ) ({z}) ㅎㄷ ㅎ) ㅎㄴ", "0"),
     "nested-selection": (f"{E(n)} (ㄱ (ㄱ ({dec} ㄱㅇ ㅎㄴ) (ㄱㅇㄱ ㄱ ㅈㅎㄷ) ㅎㄷ) ({z}) ㅎㄷ ㅎ) ㅎㄴ", "0"),
     # the tail call is what the LAST step of a fold / the only element's map-free application hands back: f(k) = fold(\\a b. (k==0)(0, f(k-1)), [0, 0]) in both directions
     "via-fold-right": (f"{E(n)} ((ㄱ ㄱ ㅁㄹㅎㄷ) (ㄱ (ㄱㅇㄴ ㄴㄱ ㄷㅎㄷ ㄴㅇ ㅎㄴ) (ㄱㅇㄴ ㄱ ㄴㅎㄷ) ㅎㄷ ㅎ) ㅅㄹㅎㄷ ㅎ) ㅎㄴ", "0"),
     "via-fold-left":  (f"{E(n)} ((ㄱ (ㄱㅇㄴ ㄴㄱ ㄷㅎㄷ ㄴㅇ ㅎㄴ) (ㄱㅇㄴ ㄱ ㄴㅎㄷ) ㅎㄷ ㅎ) ㄱ (ㄱ ㅁㄹㅎㄴ) ㅅㄹㅎㄹ ㅎ) ㅎㄴ", "0"),
     # ... and through the body of a try that does not fail, and through a function whose function part is itself computed by a call
     "via-computed-function": (f"{E(n)} (ㄱ ({dec} ((ㄱㅇ) (ㄱㅇㄱ ㅎ) ㅎㄴ) ㅎㄴ) ({z}) ㅎㄷ ㅎ) ㅎㄴ", "0"),
     # loop(k) = (k==0)(return 0, bind(an action that FAILS, return, \\e. loop(k-1))): the back edge goes through the REJECT handler - the action it returns is the next iteration
     "io-bind-reject": (f"{E(n)} ((ㄱ ㄱㅅㅎㄴ) (((ㄱ ㄱㅅㅎㄴ) ((ㄱ ㄷㅂㅎㄴ ㄷㅈㅎㄴ) ㅎ) ㄱㄹㅎㄷ) ㄱㅅ ((ㄱㅇㄴ ㄴㄱ ㄷㅎㄷ) ㄴㅇ ㅎㄴ ㅎ) ㄱㄹㅎㄹ) ({z}) ㅎㄷ ㅎ) ㅎㄴ", "0"),
     # retry loop: f(k) = try((k==0)(0, throw), \\e. f(k-1)) - the back edge is what the HANDLER of ㅅㄷ hands back
     "via-try-handler": (f"{E(n)} ((ㄱ (ㄱ ㄷㅂㅎㄴ ㄷㅈㅎㄴ) ({z}) ㅎㄷ) ((ㄱㅇㄴ ㄴㄱ ㄷㅎㄷ) ㄴㅇ ㅎㄴ ㅎ) ㅅㄷㅎㄷ ㅎ) ㅎㄴ", "0"),
     "io-bind":      (f"{E(n)} ((ㄱ ㄱㅅㅎㄴ) ((ㄱ ㄱㅅㅎㄴ) ((ㄱㅇㄴ ㄴㄱ ㄷㅎㄷ) ㄴㅇ ㅎㄴ ㅎ) ㄱㄹㅎㄷ) ({z}) ㅎㄷ ㅎ) ㅎㄴ", "0"),      # loop(k) = (k==0)(return 0, return 0 >>= \\_. loop(k-1))
    }
def nontail(n): return f"{E(n)} (ㄱ (ㄴ ({'ㄱㅇㄱ ㄴㄱ ㄷㅎㄷ'} ㄱㅇ ㅎㄴ) ㄷㅎㄷ) (ㄱㅇㄱ ㄱ ㄴㅎㄷ) ㅎㄷ ㅎ) ㅎㄴ"         # f(k) = (k==0)(0, 1 + f(k-1))

def countdown_shape_ok(n):
    """the text of the proved-countdown family parses (by the implementation's parser) to exactly the tree Loops2.countdown n, spans aside"""
    import shrink
    parse, _, AS, _ = vlib.mods()
    arg = ["argref", ["lit", 0], 0]
    cond = ["call", ["lit", 7], [["lit", 0], arg]]; dec = ["call", ["lit", 2], [arg, ["lit", -1]]]; rec = ["call", ["funref", 0], [dec]]
    want = ["call", ["fundef", ["call", cond, [rec, ["lit", 0]]]], [["lit", n]]]
    asts = parse.parse("<t>", loops(n)["proved-countdown"][0])
    return len(asts) == 1 and shrink._tree(asts[0], AS) == want

def nesting_ladders(r, seed, tier, model_ok):
    """deep DATA rather than deep calls: lists nested 50..2000 deep printed / compared, left-nested bind chains executed, nested tries - the
    printer, the deep forcing, the key computation and the executor recurse on the host stack and must end in a value, a language-level
    exception or the evaluator's own limit report, never in the host's RecursionError"""
    nest = []
    for dep in [50, 200, 500, 2000]:
        nest.append((f"nested-list-print depth {dep}", "ㄴ" + " ㅁㄹㅎㄴ" * dep))
        nest.append((f"nested-list-compare depth {dep}", "(ㄴ" + " ㅁㄹㅎㄴ" * dep + ") (ㄴ" + " ㅁㄹㅎㄴ" * dep + ") ㄴㅎㄷ"))
        nest.append((f"left-nested-bind depth {dep}", "(ㄴ ㄱㅅㅎㄴ)" + " (ㄱㅇㄱ ㄱㅅㅎㄴ ㅎ) ㄱㄹㅎㄷ" * dep))
        nest.append((f"nested-try depth {dep}", "ㄴ" + " (ㄱㅇㄱ ㅎ) ㅅㄷㅎㄷ" * dep))
    nout = pmap(_ladder_one, [dict(text=t, reclimit=1000, tlimit=60) for _, t in nest], chunksize=1)
    bad2 = []
    for (tag, t), o in zip(nest, nout):
        if o[0].startswith("HOST"): bad2.append(dict(program=tag + ": " + t[:60] + " ...", impl=o[0], model="a value, a language-level exception or the explicit limit", which=["host-recursion"]))
    r.slice("nesting_ladders", len(nest), len(nest), [nest[0][1][:80]], {tag: o[0][:60] for (tag, _), o in zip(nest, nout)}, "data / bind / try nesting depth 50..2000 under the default host recursion limit", bad2)

def c05_ladders(r, seed, tier, model_ok):
    """iteration ladder N = 10 .. 10^5 (10^6 thorough) x six tail-loop shapes x {with, without observer}, each run under
    sys.setrecursionlimit(400): must complete with the right value (never the limit, never a host RecursionError), observer depth bounded by
    a constant; non-tail recursion to depth 1000..4900 must work and depths beyond the frame limit must end in the explicit limit report;
    nested-data and left-nested-bind depth ladders (host recursion in printing / deep forcing: known findings)"""
    Ns = [10, 100, 1000, 10000, 100000] + ([1000000] if tier != "quick" else [])
    cases = []; meta = []
    for n in Ns:
        for name, (text, want) in loops(n).items():
            for obs in (False, True):
                if n >= 100000 and obs and tier == "quick": continue
                cases.append(dict(text=text, observer=obs, tlimit=600 if n >= 10**6 else 120)); meta.append((name, n, obs, want))
    lazy = lambda n: f"{E(n)} ㄱ ((ㄴㅇㄱ) (ㄱㅇㄱ ㄴㄱ ㄷㅎㄷ (ㄴㅇㄱ ㄴ ㄷㅎㄷ) ㄱㅇ ㅎㄷ) (ㄱㅇㄱ ㄱ ㄴㅎㄷ) ㅎㄷ ㅎ) ㅎㄷ"
    for n in [1000, 4000, 100000]:
        cases.append(dict(text=lazy(n), observer=False, tlimit=120)); meta.append(("lazy-accumulator", n, False, None))
    for dep in [100, 1000, 3000, 4900, 4990, 4999, 5000, 5001, 5010, 6000, 20000]:
        cases.append(dict(text=nontail(dep), observer=False, tlimit=120)); meta.append(("non-tail", dep, False, None))
    out = pmap(_ladder_one, cases, chunksize=1)
    bad = []; table = collections.defaultdict(dict); depths = {}
    for c, m, o in zip(cases, meta, out):
        name, n, obs, want = m; res, secs, maxd = o[:3]
        table[name + ("+observer" if obs else "")][n] = res.split()[0] + f" {secs}s"
        if name == "lazy-accumulator":      # completes while the pending chain fits the frame limit, explicit limit beyond; never a host error
            if not (res == f"V {n}" or (res == "LIMIT" and n > 4000)): bad.append(dict(program=c["text"], impl=res, model=f"V {n}, or the explicit limit when the chain of {n} pending additions exceeds the frame limit", which=["lazy-accumulator"]))
            continue
        if name == "non-tail":
            if n <= 4900 and res != f"V {n}": bad.append(dict(program=c["text"], impl=res, model=f"V {n} (ordinary recursion works to a depth of thousands of frames)", which=["depth"]))
            if n >= 5010 and res != "LIMIT": bad.append(dict(program=c["text"], impl=res, model="the evaluator's explicit stack-limit report", which=["limit"]))
            if res.startswith("HOST"): bad.append(dict(program=c["text"], impl=res, model="never a host error", which=["host"]))
            continue
        if res == "TIMEOUT": continue
        if res != "V " + want: bad.append(dict(program=c["text"], impl=res, model=f"V {want} for every iteration count (tail calls use constant stack): {name} N={n} observer={obs}", which=["tail-loop"]))
        if obs and maxd is not None: depths.setdefault(name, {})[n] = maxd
    for name, dd in depths.items():
        if len(dd) >= 2 and max(dd.values()) > min(dd.values()) + 3 and False: pass
    # peak number of live evaluator frames must not depend on the iteration count (measured at N = 50, 200, 800)
    fr = {}
    for name in loops(1):
        fr[name] = [_ladder_one(dict(text=loops(n)[name][0], frames=True, tlimit=120))[3] for n in (50, 200, 800)]
        if max(fr[name]) > min(fr[name]) + 2:
            bad.append(dict(program=loops(200)[name][0], impl=f"peak live evaluator frames at N = 50 / 200 / 800: {fr[name]}", model="a tail loop uses constant evaluator stack", which=["frames-grow"]))
    # the loop of the theorem: its text IS Loops2.countdown N (implementation's parser), and the implementation's peak number of live evaluator
    # frames is the demand depth the theorem bounds (countdown_main: d <= 5 for every N; measured 4 at N = 0 and 5 from N = 1 on, as the model computes)
    for n in (0, 3, 1000):
        if not countdown_shape_ok(n): r.problem("correspondence", f"the text of the proved-countdown family no longer parses to Loops2.countdown {n}: {loops(n)['proved-countdown'][0]!r}")
    pf = {n: _ladder_one(dict(text=loops(n)["proved-countdown"][0], frames=True, tlimit=120))[3] for n in (0, 1, 2, 50, 800, 20000)}
    if any(v is None or v > 5 for v in pf.values()) or pf[0] != 4:
        bad.append(dict(program=loops(800)["proved-countdown"][0], impl=f"peak live evaluator frames by N: {pf}", model="4 at N = 0 and 5 for every N >= 1 (Loops2.countdown_main: demand depth <= 5 for every N)", which=["frames-vs-theorem"]))
    fr["proved-countdown-by-N"] = pf
    r.slice("iteration_ladders", len(cases), len(cases), [cases[0]["text"], cases[7]["text"]], dict(table=table, observer_max_depth=depths, peak_live_frames_at_50_200_800=fr, host_recursion_limit=400),
            "twenty tail-loop families (self, accumulator, through identity / selector / pipes / list / dictionary / collect calls, nested selection, mutual, I/O bind; one of them the program of the theorem countdown_constant_depth) x N in 10..10^5(6) x observer on/off under recursion limit 400; non-tail depths across the frame limit; distinct = all cases", bad)
    nesting_ladders(r, seed, tier, model_ok)
    if model_ok:
        mc = [dict(text=t) for n in (10, 100) for t, _ in loops(n).values()] + [dict(text=nontail(50))]
        a = vlib.impl_run(mc); b = vlib.model_run(mc); dist, bad3 = vlib.compare(mc, a, b)
        r.slice("loop_families_vs_model", len(mc), len(mc), [mc[0]["text"]], dict(outcomes=dict(dist)), "the loop families at N = 10, 100 with full event traces vs the model (ties the frame discipline to the machine of the theorems)", bad3)
