"""Shared machinery of the checks: translate -> build -> gate -> Print Assumptions -> drivers -> run implementation / model
-> compare -> known findings -> evidence / VIOLATION lines.   Used by /verif/check and by tools/slices_*.py."""
import sys, os, json, time, subprocess, fcntl, re, random, io, signal, collections, multiprocessing, traceback, shutil, hashlib

ROOT = os.path.dirname(os.path.dirname(os.path.abspath(__file__)))
REPO = os.environ.get("VERIF_REPO", "/repo")
COQ = os.path.join(ROOT, "coq")
OCAML = os.path.join(ROOT, "ocaml")
PY = "/venv/bin/python"
NPROC = int(os.environ.get("VERIF_NPROC", "14"))
os.environ.setdefault("PYTHONHASHSEED", "0")

ALLOWED_AXIOMS = set()      # none: every property theorem must be "Closed under the global context"

def sh(cmd, cwd=None, timeout=3000, inp=None, env=None):
    try:
        p = subprocess.run(cmd, cwd=cwd, shell=isinstance(cmd, str), capture_output=True, text=True, timeout=timeout, input=inp, env=env)
        return p.returncode, p.stdout + p.stderr
    except subprocess.TimeoutExpired as e:
        return 124, f"TIMEOUT after {timeout}s: {cmd}"

# ------------------------------------------------------------------------------------------------ build
class Lock:
    def __enter__(s):
        s.f = open(os.path.join(ROOT, ".build.lock"), "w"); fcntl.flock(s.f, fcntl.LOCK_EX); return s
    def __exit__(s, *a):
        fcntl.flock(s.f, fcntl.LOCK_UN); s.f.close()

def translate():
    """regenerate coq/Gen/*.v from REPO's working tree; returns list of 'UNREADABLE name: why' lines"""
    rc, out = sh([PY, os.path.join(ROOT, "tools", "translate.py"), REPO, os.path.join(COQ, "Gen")])
    return [l for l in out.splitlines() if l.startswith("UNREADABLE")] + ([f"UNREADABLE translator crashed: {out[-300:]}"] if rc not in (0, 2) else [])

def coq_files():
    fs = []
    for d in ("Gen", "src", "Props"):
        fs += sorted(os.path.join(d, f) for f in os.listdir(os.path.join(COQ, d)) if f.endswith(".v"))
    return fs

SLOW_ONLY = {"src/WitC01.v"}          # search helpers compiled only on demand

def write_project():
    txt = '-Q src ""\n-Q Gen ""\n-Q Props ""\n' + "\n".join(f for f in coq_files() if f not in SLOW_ONLY) + "\n"
    p = os.path.join(COQ, "_CoqProject")
    if not os.path.exists(p) or open(p).read() != txt:
        open(p, "w").write(txt)
        sh("coq_makefile -f _CoqProject -o Makefile", cwd=COQ)
    elif not os.path.exists(os.path.join(COQ, "Makefile")) or os.path.getmtime(os.path.join(COQ, "Makefile")) < os.path.getmtime(p):
        sh("coq_makefile -f _CoqProject -o Makefile", cwd=COQ)

def make(targets=None, timeout=2400):
    """full .vo build of the requested targets (default: everything), keep going on errors.
    returns (ok: dict target->bool, log)"""
    write_project()
    tg = " ".join(targets) if targets else ""
    t = time.time()
    rc, out = sh(f"timeout {timeout} make -k -j16 {tg} 2>&1", cwd=COQ, timeout=timeout + 60)
    ok = {}
    for f in (targets or [x[:-2] + ".vo" for x in coq_files() if x not in SLOW_ONLY]):
        ok[f] = os.path.exists(os.path.join(COQ, f)) and os.path.getmtime(os.path.join(COQ, f)) >= os.path.getmtime(os.path.join(COQ, f[:-1]))
    for m in re.finditer(r"\*\*\* \[[^\]]*?:\s*(\S+\.vo)\] Error", out):          # a file that no longer compiles against a regenerated dependency leaves its old .vo behind
        ok[m.group(1)] = False
    return ok, out, time.time() - t

GATE = re.compile(r"\b(Admitted|admit|Axiom|Axioms|Parameter|Parameters|Conjecture|Hypothesis|Variable|Unset Guard|bypass_check|Admit Obligations)\b|type-in-type|impredicative-set|Unset Universe|Unset Positivity")
def strip_comments(s):
    out = []; depth = 0; i = 0
    while i < len(s):
        if s.startswith("(*", i): depth += 1; i += 2; continue
        if s.startswith("*)", i) and depth: depth -= 1; i += 2; continue
        if depth == 0: out.append(s[i])
        elif s[i] == "\n": out.append("\n")
        i += 1
    return "".join(out)
def gate():
    """no Admitted / Axiom / Parameter / ... anywhere in the development (Variables are allowed only inside Sections)"""
    bad = []
    for f in coq_files() + ["_CoqProject"]:
        txt = strip_comments(open(os.path.join(COQ, f), encoding="utf-8").read())
        in_section = 0
        for i, line in enumerate(txt.splitlines(), 1):
            if re.match(r"\s*Section\b", line): in_section += 1
            if re.match(r"\s*End\b", line) and in_section: in_section -= 1
            m = GATE.search(line)
            if m and not (m.group(1) in ("Variable", "Hypothesis") and in_section):
                bad.append(f"{f}:{i}: {line.strip()[:90]}")
    return bad

def prop_assumptions(pid):
    """compile Props/Prop_<pid>.v alone and parse its Print Assumptions output: returns (rc, theorems, closed, axioms, log)"""
    f = f"Props/Prop_{pid}.v"
    src = strip_comments(open(os.path.join(COQ, f), encoding="utf-8").read())
    theorems = re.findall(r"^\s*(?:Theorem|Corollary)\s+(\w+)", src, re.M)
    printed = re.findall(r"^\s*Print Assumptions\s+(\w+)", src, re.M)
    rc, out = sh(f'timeout 900 coqc -Q src "" -Q Gen "" -Q Props "" {f} 2>&1', cwd=COQ, timeout=960)
    closed = out.count("Closed under the global context")
    axioms = []
    for blk in re.findall(r"Axioms:\n((?:.+\n?)+?)(?:\n|$)", out):
        axioms += re.findall(r"^(\S+)\s*:", blk, re.M)
    missing = [t for t in theorems if t not in printed]
    return rc, theorems, closed, axioms, missing, out

def build_drivers():
    rc, out = sh("sh ./build.sh 2>&1", cwd=OCAML, timeout=600)
    return rc, out

# ------------------------------------------------------------------------------------------------ implementation side
KIND = {"Integer": 1, "Boolean": 2, "String": 3, "List": 4, "Dict": 5, "IO": 7, "ErrorValue": 8, "Nil": 9, "Bytes": 11, "Float": 12, "Complex": 13}
class _TO(Exception): pass
def _alarm(*a): raise _TO()

_mods = None
def mods():
    global _mods
    if _mods is None:
        if REPO not in sys.path: sys.path.insert(0, REPO)
        from pbhhg_py import abstract_syntax as AS          # the order cli.py imports them in (a change may make another order circular)
        from pbhhg_py import interpret, main as M, parse
        _mods = (parse, interpret, AS, M)
    return _mods

import math
def canon_float(x):
    """how a real prints: Python's repr - the model prints the same text (FloatText.repr_float), so printed reals are compared as they are"""
    return repr(float(x))
_FL = re.compile(r"(?<![\w.'])-?(?:\d+\.\d+(?:e[+-]?\d+)?|\d+e[+-]?\d+|inf|nan)(?![\w.'])")
def canon_floats(s): return s          # kept for callers: no rewriting of printed reals any more

def host_site(e):
    fr = [f for f in traceback.extract_tb(e.__traceback__) if "/pbhhg_py/" in f.filename]
    return f"HOST {type(e).__name__} at {os.path.basename(fr[-1].filename)}:{fr[-1].name}" if fr else f"HOST {type(e).__name__}"

def impl_one(case):
    """case = dict(text=..., stdin=[lines], trace=bool, floats=bool, tlimit=sec)  ->  observation string
       res \t OUT <cps> \t REST <n unread lines> \t EV <events>"""
    parse, interpret, AS, M = mods()
    text = case["text"]; lines = case.get("stdin", []); trace = case.get("trace", True)
    class Rec(interpret.DebuggerBase):
        def __init__(s): s.ev = []
        def sp(s, e): m = e.expr.metadata; return f"{m.line_no}:{m.start_col}:{m.end_col}"
        def before_eval(s, d, e): s.ev.append(f"B{d}@{s.sp(e)}")
        def after_eval(s, d, e, r): s.ev.append(f"A{d}@{s.sp(e)}#{0 if isinstance(r, BaseException) else KIND.get(type(r).__name__, 6)}")
    rec = Rec() if trace else None
    files = case.get("files"); tmpd = None; oldcwd = None
    if files is not None:          # module files: a fresh directory holding them becomes the working directory, the module registry starts empty
        import tempfile
        from pbhhg_py.builtins import module as MOD
        base = os.path.join(ROOT, ".scratch"); os.makedirs(base, exist_ok=True); tmpd = tempfile.mkdtemp(prefix="imp_", dir=base)
        for rel, content in files.items():
            fp = os.path.join(tmpd, rel); os.makedirs(os.path.dirname(fp), exist_ok=True); open(fp, "wb").write(content)
        oldcwd = os.getcwd(); os.chdir(tmpd); MOD._MODULE_REGISTRY.clear()
    src = "".join(l + "\n" for l in lines)
    if case.get("noeol") and src: src = src[:-1]          # the last line without its line feed: still one line
    old_in, old_out = sys.stdin, sys.stdout
    sys.stdin = io.StringIO(src); out = io.StringIO(); sys.stdout = out
    signal.signal(signal.SIGALRM, _alarm); signal.setitimer(signal.ITIMER_REAL, case.get("tlimit", 3.0))
    try:
        try:
            asts = parse.parse("<t>", text)
            if case.get("many"):          # main.main: every expression of the text, one evaluate() each, in one process; the first failure propagates
                env0 = AS.Env([], []); outs = []
                for a_ in asts: outs.append(interpret.evaluate(M.formatter(AS.Expr(a_, env0), bool(case.get("fio"))), debugger=rec))
                res = "V " + ",".join(str(ord(c)) for c in " | ".join(outs))
            elif len(asts) != 1: res = f"NEXPR {len(asts)}"
            else:
                r = interpret.evaluate(M.formatter(AS.Expr(asts[0], AS.Env([], [])), False), debugger=rec)
                if case.get("floats", True): r = canon_floats(r)
                res = "V " + ",".join(str(ord(c)) for c in r)
        except AS.UnsuspectedHangeulError as e:
            res = "E " + ",".join(str(v.value) if isinstance(v, AS.Integer) else "?" for v in e.err.value) + " @" + ";".join(f"{m.line_no}:{m.start_col}:{m.end_col}" for m in e.err.metadatas)
        except _TO: res = "TIMEOUT"
        except RecursionError as e: res = host_site(e)
        except RuntimeError as e: res = "LIMIT" if "Maximum Stack Size" in str(e) else host_site(e)
        except MemoryError: res = "TIMEOUT"
        except BaseException as e: res = host_site(e)
    finally:
        signal.setitimer(signal.ITIMER_REAL, 0); sys.stdout = old_out
        rest_txt = sys.stdin.read(); sys.stdin = old_in
        if tmpd: os.chdir(oldcwd); shutil.rmtree(tmpd, ignore_errors=True)
    rest = (len(rest_txt.split("\n")) - 1 + (1 if rest_txt and not rest_txt.endswith("\n") else 0)) if src else 0
    return f"{res}\tOUT {','.join(str(ord(c)) for c in out.getvalue())}\tREST {rest}\tEV {' '.join(rec.ev) if rec else ''}"

def _pool_init():
    sys.setrecursionlimit(int(os.environ.get("VERIF_RECLIMIT", "1000")))
    mods()

def pmap(fn, items, chunksize=50):
    if len(items) < 64:
        _pool_init(); return [fn(x) for x in items]
    _pool_init()          # in the parent first: a tree that cannot be imported raises HERE (a failing initializer makes the pool respawn workers forever)
    with multiprocessing.get_context("fork").Pool(NPROC, initializer=_pool_init) as p:
        return p.map(fn, items, chunksize=chunksize)

def impl_run(cases): return pmap(impl_one, cases)

# ------------------------------------------------------------------------------------------------ model side
def cps(s): return ",".join(str(ord(c)) for c in s)
def model_line(case):
    lines = case.get("stdin", [])
    inp = "-" if not lines else "|".join(cps(x) for x in lines)
    if case.get("many"):          # run_main_many: every expression of the text
        fl = case.get("files") or {}
        dk = ";".join(cps(rel) + "=" + (".".join(str(b) for b in content) or "e") for rel, content in fl.items()) or "-"
        return f"MM\t{dk}\t{inp}\t{1 if case.get('fio') else 0}\t{cps(case['text'])}"
    if case.get("files") is not None:          # run_main_fs on the disk holding the module files
        dk = ";".join(cps(rel) + "=" + (".".join(str(b) for b in content) or "e") for rel, content in case["files"].items()) or "-"
        return f"IM\t{dk}\t{inp}\t{cps(case['text'])}"
    return inp + "\tT " + cps(case["text"])
def driver(name, lines, shards=NPROC, timeout=1800, tlimit=None):
    """run ocaml/<name> on the input lines (sharded over processes), keep order"""
    exe = os.path.join(OCAML, name)
    if not lines: return []
    n = max(1, min(shards, len(lines) // 100 + 1)); sz = (len(lines) + n - 1) // n
    procs = []
    for i in range(n):
        chunk = lines[i * sz:(i + 1) * sz]
        env = dict(os.environ); 
        if tlimit: env["VERIF_MODEL_TLIMIT"] = str(tlimit)
        p = subprocess.Popen(["sh", "-c", f"ulimit -s unlimited 2>/dev/null; exec {exe}"], stdin=subprocess.PIPE, stdout=subprocess.PIPE, stderr=subprocess.PIPE, text=True, env=env)
        procs.append((p, chunk))
    import threading
    outs = [None] * n
    def feed(i, p, chunk):
        try: o, e = p.communicate("".join(l + "\n" for l in chunk), timeout=timeout)
        except subprocess.TimeoutExpired: p.kill(); o, e = p.communicate()
        res = o.split("\n")[:-1] if o.endswith("\n") else o.split("\n")
        res += [f"DRIVERFAIL {e.strip()[-120:]}"] * (len(chunk) - len(res))
        outs[i] = res[:len(chunk)]
    th = [threading.Thread(target=feed, args=(i, p, c)) for i, (p, c) in enumerate(procs)]
    for t in th: t.start()
    for t in th: t.join()
    return [x for o in outs for x in o]
def model_run(cases, tlimit=None): return driver("driver", [model_line(c) for c in cases], tlimit=tlimit)

def decode_v(s):
    """'V 1,2' -> 'V <text>'"""
    if s.startswith("V "): return "V " + "".join(chr(int(c)) for c in s[2:].split(",") if c)
    return s

# ------------------------------------------------------------------------------------------------ comparison
def compare(cases, impl_obs, model_obs, fields=("res", "out", "rest", "ev"), norm=None):
    """returns (dist Counter, disagreements list of dict(program, stdin, impl, model, which))"""
    dist = collections.Counter(); bad = []
    for c, a, b in zip(cases, impl_obs, model_obs):
        fa, fb = a.split("\t"), b.split("\t")
        ra, rb = fa[0], fb[0]
        if rb.startswith(("FUEL", "UNMODELLED")): dist["skipped:model-" + rb.split()[0].lower()] += 1; continue
        if ra.startswith("TIMEOUT"): dist["skipped:impl-timeout"] += 1; continue
        dist["value" if ra[0] == "V" else "language-error" if ra[0] == "E" else ra.split(" at ")[0]] += 1
        if len(fb) < 4:
            bad.append(dict(program=c["text"], stdin=c.get("stdin", []), impl=decode_v(ra), model=rb, which=["driver"])); continue
        if norm: fa, fb = norm(fa), norm(fb)
        which = [n for n, x, y in zip(("res", "out", "rest", "ev"), fa, fb) if x != y and n in fields]
        if which: bad.append(dict(program=c["text"], stdin=c.get("stdin", []), impl=decode_v(fa[0]), model=decode_v(fb[0]), which=which,
                                  detail=None if which == ["res"] else dict(impl=[x[:300] for x in fa[1:]], model=[x[:300] for x in fb[1:]])))
    # make the first failing inputs small (the shrunk program is added next to the original; it fails the same comparison)
    try:
        import shrink
        todo = [d for d in sorted(bad, key=lambda x: len(x["program"])) if d["which"] != ["ev"] and d["which"] != ["driver"]][:3]
        for d in todo:
            proto = next(c for c in cases if c["text"] == d["program"])
            def still_fails(txt, proto=proto):
                c2 = dict(proto, text=txt); a2 = impl_one(c2); b2 = model_run([c2])[0]
                fa2, fb2 = a2.split("\t"), b2.split("\t")
                if len(fb2) < 4 or fb2[0].startswith(("FUEL", "UNMODELLED")) or fa2[0].startswith("TIMEOUT"): return False
                if norm: fa2, fb2 = norm(fa2), norm(fb2)
                return any(x != y for n, x, y in zip(("res", "out", "rest", "ev"), fa2, fb2) if n in fields and n != "ev")
            small = shrink.shrink_program(d["program"], still_fails)
            if small != d["program"] and len(small) < len(d["program"]):
                c2 = dict(proto, text=small); a2 = impl_one(c2).split("\t"); b2 = model_run([c2])[0].split("\t")
                d["shrunk"] = dict(program=small, impl=decode_v(a2[0]), model=decode_v(b2[0]))
    except Exception as e:
        pass
    return dist, bad

# ------------------------------------------------------------------------------------------------ known findings
def load_known():
    p = os.path.join(ROOT, "known_findings.json")
    return json.load(open(p, encoding="utf-8"))["findings"] if os.path.exists(p) else []
def match_known(pid, d, known):
    for k in known:
        if k.get("status") != "open": continue
        if k["property"] != pid and pid not in k.get("also", []): continue
        if re.search(k["impl_pattern"], d.get("impl", "")) and re.search(k.get("program_pattern", ""), d.get("program", "")):
            return k
    return None

# ------------------------------------------------------------------------------------------------ result object
class Result:
    """accumulates what a check did; turned into the evidence file and the exit status"""
    def __init__(s, pid, tier, seed):
        s.pid, s.tier, s.seed = pid, tier, seed; s.t0 = time.time()
        s.problems = []          # (kind, text): broken proof obligations / ties, with no concrete input (yet)
        s.failing = []           # concrete failing inputs: dict(slice=..., program=..., impl=..., model/expected=...)
        s.known_hits = {}        # id -> (finding, example)
        s.cases = 0; s.distinct = 0; s.samples = []; s.dist = {}; s.rules = []
        s.obligations = 0; s.discharged = 0; s.theorems = []; s.extra = {}
    def slice(s, name, cases, distinct, samples, dist, rule, disagreements=()):
        s.cases += cases; s.distinct += distinct; s.samples += list(samples)[:3]; s.dist[name] = dist; s.rules.append(f"{name}: {rule}")
        known = load_known(); trace_only = []
        for d in sorted(disagreements, key=lambda x: len(str(x.get("program", "")))):
            k = match_known(s.pid, d, known)
            if k: s.known_hits.setdefault(k["id"], (k, d))
            elif d.get("which") == ["ev"]: trace_only.append(d)
            else: s.failing.append(dict(slice=name, **d))
        if trace_only:
            # result, output and input consumption agree and only the observer event trace differs from the model's: the implementation no longer
            # takes the same evaluation steps as the machine the theorems are about.  That breaks the TIE, it is not by itself a failing input.
            ex = trace_only[0]
            s.problem("correspondence", f"slice {name}: the observer event trace differs from the model's on {len(trace_only)} program(s) while result, stdout and stdin agree; "
                                        f"shortest: {ex.get('program', '')[:200]!r} impl events {str((ex.get('detail') or {}).get('impl', ''))[:300]} model events {str((ex.get('detail') or {}).get('model', ''))[:300]}")
    def problem(s, kind, text): s.problems.append((kind, text))

def finish(r, checker_cmd, trusted, assumptions):
    os.makedirs(os.path.join(ROOT, "evidence"), exist_ok=True); os.makedirs(os.path.join(ROOT, "replays"), exist_ok=True)
    for kid, (k, d) in sorted(r.known_hits.items()):
        print(f"KNOWN-FINDING: property={r.pid} {k['what']} (e.g. {d.get('program', '')[:70]!r} -> {d.get('impl', '')[:60]})")
    code = 0
    if r.failing or r.problems:
        code = 1
        rp = os.path.join(ROOT, "replays", f"{r.pid}-{r.tier}-{r.seed}.json")
        body = dict(property=r.pid, seed=r.seed, tier=r.tier,
                    how_to_replay=f"VERIF_SEED={r.seed} ./check {r.pid} --tier {r.tier}   (each failing input below is a program text for pbhhg_py.main.main, or as described in its 'slice')",
                    broken_obligations=[dict(kind=k, what=t) for k, t in r.problems], failing_inputs=r.failing[:25], n_failing=len(r.failing))
        json.dump(body, open(rp, "w", encoding="utf-8", errors="backslashreplace"), ensure_ascii=False, indent=1)          # a failing input may hold a lone surrogate
        tail = "" if r.failing else " no-failing-input-found"
        print(f"VIOLATION property={r.pid} replay={rp}{tail}")
    ev = dict(property_id=r.pid, tier=r.tier, seed=r.seed, level="proof", wall_s=round(time.time() - r.t0, 1), violations=len(r.failing) + (1 if r.problems and not r.failing else 0),
              coverage=dict(obligations=max(r.obligations, 1), discharged=r.discharged, theorems=r.theorems, checker_cmd=checker_cmd, trusted_base=trusted,
                            evaluations=r.cases, distinct_nontrivial=r.distinct, rule=" || ".join(r.rules), samples=r.samples[:12] or ["(no correspondence slice in this run)"],
                            input_distribution=r.dist, known_findings_seen=sorted(r.known_hits), broken=[f"{k}: {t}"[:300] for k, t in r.problems], **r.extra),
              assumptions=assumptions)
    json.dump(ev, open(os.path.join(ROOT, "evidence", f"{r.pid}.json"), "w", encoding="utf-8", errors="backslashreplace"), ensure_ascii=False, indent=1)
    return code
