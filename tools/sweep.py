import sys, io, os, itertools, traceback, signal, collections, json
os.chdir("/tmp/sweep"); os.makedirs("cwd", exist_ok=True); os.chdir("cwd")
sys.path.insert(0, '/repo')
from pbhhg_py.main import main
from pbhhg_py import abstract_syntax as AS
from pbhhg_py import parse
E = parse.encode_number
def b(bs): 
    n = int.from_bytes(bs, 'little'); return f"({E(n)} ㄴ {E(len(bs))} ㅂ ㅂ ㅂㅎㄷ ㅎㄷ ㅎㄴ)"
def s(txt): return f"({b(txt.encode())} ㄱ ㄴ ㅂ ㅂ ㅂㅎㄷ ㅎㄷ ㅎㄴ)"
INF = "(ㅂ ㅅ ㅁ ㅂㅎㄹ)"
VALS = {
 "i0":"ㄱ","i1":"ㄴ","i-1":"ㄴㄱ","i2":"ㄷ","i5000":f"{E(5000)}","ibig":f"{E(2**64)}","i-big":f"{E(-2**64)}",
 "f0":"(ㄱ ㅅㅅㅎㄴ)","f1.5":"(ㄹ ㅅㅅㅎㄴ ㄷ ㄴㄱ ㅅㅎㄷ ㄱㅎㄷ)","finf":INF,"f-inf":f"(ㄴㄱ {INF} ㄱㅎㄷ)","fnan":"(ㅂ ㅅ ㄴ ㅂㅎㄹ)","f1e308":f"({E(10)} {E(308)} ㅅㅎㄷ ㅅㅅㅎㄴ)",
 "ci":"(ㄱ ㄴ ㅂㅅㅎㄷ)","c0":"(ㄱ ㄱ ㅂㅅㅎㄷ)",
 "bT":"(ㅈㅈㅎㄱ)","bF":"(ㄱㅈㅎㄱ)",
 "s''":"(ㅁㅈㅎㄱ)","s'1'":"(ㄴ ㅁㅈㅎㄴ)","s'ab'":s("ab"),"s'x.y'":s("1.5"),
 "y''":b(b""),"y'\\x01\\x02'":b(b"\x01\x02"),
 "l[]":"(ㅁㄹㅎㄱ)","l[1]":"(ㄴ ㅁㄹㅎㄴ)","l['1','2']":"(ㄴ ㅁㅈㅎㄴ ㄷ ㅁㅈㅎㄴ ㅁㄹㅎㄷ)","l[1,'1']":"(ㄴ ㄴ ㅁㅈㅎㄴ ㅁㄹㅎㄷ)",
 "d{}":"(ㅅㅈㅎㄱ)","d{0:1}":"(ㄱ ㄴ ㅅㅈㅎㄷ)",
 "fn":"(ㄱㅇㄱ ㅎ)","fnK":"(ㄴ ㅎ)",
 "ioR":"(ㄱ ㄱㅅㅎㄴ)","ioI":"(ㄹㅎㄱ)",
 "e[]":"(ㄷㅂㅎㄱ)","e[0]":"(ㄱ ㄷㅂㅎㄴ)",
 "nil":"(ㅂㄱㅎㄱ)",
}
SMALL = ["i0","i1","i-1","f0","finf","fnan","s''","s'ab'","y''","l[]","l[1]","d{}","fn","bT","nil","e[0]","ioR","ci"]
BUILTINS = "ㄱ ㄷ ㅅ ㄴㄴ ㄴㅁ ㄷㅂ ㅁㄹ ㅁㅈ ㅂㄱ ㅂㅅ ㅅㅅ ㅅㅈ ㅈㅅ ㄷㅈ ㅅㄷ ㄴㄱ ㅁㅂ ㅂㅂ ㄹ ㅈㄹ ㄱㅅ ㄱㄹ ㄱㄴ ㄴ ㅁ ㅈ ㅈㅈ ㄱㅈ ㅂ ㅈㄷ ㅂㅈ ㅁㄷ ㅅㅂ ㅅㄹ ㅂㄹ ㄱㅁ".split()
MODS = {"bit."+k: f"(ㅂ ㅂㄷ {k} ㅂㅎㄹ)" for k in "ㄱ ㄷ ㅁ ㅂ ㅈ".split()}
MODS.update({"math."+k: f"(ㅂ ㅅ {k} ㅂㅎㄹ)" for k in "ㄱ ㄴㄴ ㅁㄴ ㅈㄷ ㄹㄱ ㅅㄴ ㄴㅅ ㄱㅅ ㅅㄱ ㄷㄴ ㄴㄷ".split()})
MODS.update({"round."+k: f"(ㅂ ㅅ ㅂㄹ {k} ㅂㅎㅁ)" for k in "ㄱ ㄴ ㄷ ㄹ ㅁ".split()})
MODS["codec"] = "(ㅂ ㅂ ㅂㅎㄷ)"
CALLEES = {k:v for k,v in VALS.items() if k[0] in "bdcslye"}   # callables as functions
class TO(Exception): pass
def alarm(*a): raise TO()
signal.signal(signal.SIGALRM, alarm)
found = collections.defaultdict(list); stats = collections.Counter()
def classify(prog, tag):
    sys.stdin = io.StringIO(""); out = io.StringIO(); old = sys.stdout; sys.stdout = out
    signal.setitimer(signal.ITIMER_REAL, 2.0)
    try:
        main("<t>", prog, False); stats["value"] += 1
    except AS.UnsuspectedHangeulError: stats["langerr"] += 1
    except TO: stats["timeout"] += 1
    except RuntimeError as e:
        if "Maximum Stack" in str(e): stats["limit"] += 1
        else: rec(e, prog, tag)
    except BaseException as e: rec(e, prog, tag)
    finally:
        signal.setitimer(signal.ITIMER_REAL, 0); sys.stdout = old
def rec(e, prog, tag):
    stats["HOST"] += 1
    tb = traceback.extract_tb(e.__traceback__)
    fr = [f for f in tb if "/pbhhg_py/" in f.filename]
    site = f"{os.path.basename(fr[-1].filename)}:{fr[-1].name}:{fr[-1].lineno}" if fr else "?"
    key = (type(e).__name__, site)
    if len(found[key]) < 3: found[key].append((tag, prog))
def danger(name, args):
    if name in ("ㅅ","bit.ㅈ") and len(args) >= 2 and args[1] in ("ibig","i-big") : return True
    if name == "ㅅ" and len(args)>=2 and args[0] in ("ibig","i-big","i5000") and args[1] in ("i5000",): return True
    return False
names = list(VALS)
def run_all(fname, ftext):
    for ar in range(0, 4):
        pool = names if ar <= 2 else SMALL
        for args in itertools.product(pool, repeat=ar):
            if danger(fname, args): continue
            prog = " ".join(VALS[a] for a in args) + f" {ftext} ㅎ{E(ar)}"
            classify(prog, f"{fname}({','.join(args)})")
for f in BUILTINS: run_all(f, f)
for f, t in MODS.items(): run_all(f, t)
for f, t in CALLEES.items(): run_all("call:"+f, t)
# second-order: call results of function-producing builtins
for mk in ["ㄴㄱ","ㅁㅂ","ㅂㅂ"]:
    for inner in ["ㄷ","ㅈㄷ","(ㄱㅇㄱ ㅎ)","(ㅈㅈㅎㄱ)","(ㅁㄹㅎㄱ)","ㅁㄹ"]:
        run_all(f"{mk}[{inner}]", f"({inner} {mk}ㅎㄴ)")
for sch in ["ㄱ","ㄴ","ㄷ","ㄹ","ㅁ","ㄴㄱ"]:
    for w in ["ㄱ","ㄴ","ㄷ","ㄹ","ㅁ","ㄴㄱ",E(2**64)]:
        for en in ["","(ㅈㅈㅎㄱ)","(ㄱㅈㅎㄱ)"]:
            n = 2 + (1 if en else 0)
            for a in names:
                classify(f"{VALS[a]} ({sch} {w} {en} ㅂ ㅂ ㅂㅎㄷ ㅎ{E(n)}) ㅎㄴ", f"codec[{sch},{w},{en}]({a})")
print(json.dumps(stats))
for k, v in sorted(found.items()):
    print(k, "::", v[0][0], "|", v[0][1][:90])
