# float slice: numeric tower programs, floats compared exactly (canonical F<m>p<e> form on both sides)
import sys, io, random, subprocess, collections, re, math
import os; sys.path.insert(0, os.environ.get('VERIF_REPO', '/repo')); sys.path.insert(0, '/tmp/genprobe')
from pbhhg_py import abstract_syntax as AS
from pbhhg_py import interpret, main as M, parse
import gen as Gm
def canon_float(x):
    if x != x: return "Fnan"
    if x in (math.inf, -math.inf): return "Finf" if x > 0 else "F-inf"
    if x == 0: return "F-0" if math.copysign(1, x) < 0 else "F0"
    m, e = math.frexp(x); m = int(m * 2**53); e -= 53
    while m % 2 == 0: m //= 2; e += 1
    return f"F{m}p{e}"
FL = re.compile(r"(?<![\w.])-?(?:\d+\.\d+(?:e[+-]?\d+)?|\d+e[+-]?\d+|inf|nan)(?![\w.])")
def canon(s): return FL.sub(lambda m: canon_float(float(m.group(0))), s)
def ser(a):
    m = a.metadata; sp = f"{m.line_no} {m.start_col} {m.end_col}"
    if isinstance(a, AS.Literal): return f"L {a.value} {sp}"
    if isinstance(a, AS.FunRef): return f"R {a.rel} {sp}"
    if isinstance(a, AS.ArgRef): return f"A {ser(a.relA)} {a.relF} {sp}"
    if isinstance(a, AS.FunDef): return f"D {ser(a.body)} {sp}"
    return f"C {ser(a.fun)} {len(a.argv)} " + " ".join(ser(x) for x in a.argv) + f" {sp}"
def impl(ast0):
    try:
        r = interpret.evaluate(M.formatter(AS.Expr(ast0, AS.Env([], [])), False))
        return "V " + canon(r)
    except AS.UnsuspectedHangeulError as e:
        codes = ",".join(str(v.value) if isinstance(v, AS.Integer) else "?" for v in e.err.value)
        return "E " + codes + " @" + ";".join(f"{m.line_no}:{m.start_col}:{m.end_col}" for m in e.err.metadatas)
    except BaseException as e:
        import traceback; tb = traceback.extract_tb(e.__traceback__)[-1]
        return "HOST " + type(e).__name__ + " " + tb.filename.split("/")[-1] + ":" + tb.name
