# C14 correspondence: operation histories on real files through the interpreter vs the Coq byte-array model
import sys, io, os, random, subprocess, collections, shutil
SCR = "/tmp/c14_scratch"; shutil.rmtree(SCR, ignore_errors=True); os.makedirs(SCR); os.chdir(SCR)
sys.path.insert(0, os.environ.get('VERIF_REPO', '/repo'))
from pbhhg_py.main import main
from pbhhg_py import parse
E = parse.encode_number
def by(bs):
    n = int.from_bytes(bs, 'little'); return f"({E(n)} ㄴ {E(len(bs))} ㅂ ㅂ ㅂㅎㄷ ㅎㄷ ㅎㄴ)"
def st(txt): return f"({by(txt.encode('utf-8'))} ㄱ ㄴ ㅂ ㅂ ㅂㅎㄷ ㅎㄷ ㅎㄴ)"
def fmtb(bs): return "b'" + "".join(f"\\x{x:02X}" for x in bs) + "'"
MODES = {"rb":"ㄹ","wb":"ㅈㄹ","ab":"ㅈㄱ","r+b":"ㄹㅈㄹ","w+b":"ㅈㄹㄹ","a+b":"ㅈㄱㄹ"}
R = random.Random(int(sys.argv[1])); N = int(sys.argv[2])
def dots(bs): return ".".join(str(b) for b in bs) if bs else "e"
cases = []; dist = collections.Counter()
for trial in range(N):
    mode = R.choice(list(MODES)); init = R.choice([None, b"", bytes(R.randrange(256) for _ in range(R.randrange(1, 40)))])
    if init is None and mode in ("rb","r+b"): init = bytes(R.randrange(256) for _ in range(R.randrange(0, 6)))
    fn = f"f{trial}.bin"
    if init is not None: open(fn, "wb").write(init)
    can_r = mode in ("rb","r+b","w+b","a+b"); can_w = mode != "rb"
    ops = []
    for _ in range(R.randrange(1, 31)):
        k = R.choice(["read","write","write","tell","seek","seekset","seekcur","trunc","truncn"])
        if k == "read" and can_r: ops.append(("read", R.choice([-1,0,1,3,100])))
        elif k == "write" and can_w: ops.append(("write", bytes(R.randrange(256) for _ in range(R.randrange(0,6)))))
        elif k == "tell": ops.append(("tell",))
        elif k in ("seek","seekset"): ops.append((k, R.randrange(0, 50)))
        elif k == "seekcur": ops.append((k, R.randrange(0, 10)))
        elif k == "trunc" and can_w: ops.append(("trunc",))
        elif k == "truncn" and can_w: ops.append(("truncn", R.randrange(0, 50)))
    if not ops: ops = [("tell",)]
    for o in ops: dist[o[0]] += 1
    dist["mode:" + mode] += 1; dist["init:" + ("none" if init is None else "empty" if not init else "data")] += 1
    n = len(ops)
    def F(d): return f"ㄱ ㅇ{E(d)}"
    def opx(op, d):
        f = F(d)
        return {"read": lambda: f"({E(op[1])} ㄹ {f} ㅎㄷ)", "write": lambda: f"({by(op[1])} ㅈㄹ {f} ㅎㄷ)", "tell": lambda: f"(ㅈ {f} ㅎㄴ)",
                "seek": lambda: f"({E(op[1])} ㅈ {f} ㅎㄷ)", "seekset": lambda: f"(ㅅㅈㅂㄷ {E(op[1])} ㅈ {f} ㅎㄹ)", "seekcur": lambda: f"(ㅈㄱㅂㄷ {E(op[1])} ㅈ {f} ㅎㄹ)",
                "trunc": lambda: f"(ㄱ {f} ㅎㄴ)", "truncn": lambda: f"({E(op[1])} ㄱ {f} ㅎㄷ)"}[op[0]]()
    def build(i):
        if i == n:
            rs = " ".join(f"(ㄱ ㅇ{E(n + 1 - j)})" for j in range(1, n+1))
            return f"((ㄷ {F(n)} ㅎㄴ) (({rs} ㅁㄹㅎ{E(n)}) ㄱㅅㅎㄴ ㅎ) ㄱㄹㅎㄷ)"
        return f"({opx(ops[i], i)} ({build(i+1)} ㅎ) ㄱㄹㅎㄷ)"
    prog = f"({st(fn)} {MODES[mode]} ㄱㄴㅎㄷ) ({build(0)} ㅎ) ㄱㄹㅎㄷ"
    try: got = main("<t>", prog, False)[0]
    except BaseException as e: got = "EXC " + type(e).__name__ + " " + str(e)[-80:]
    disk = open(fn, "rb").read() if os.path.exists(fn) else None
    enc = {"read": lambda o: f"R:{o[1]}", "write": lambda o: "W:" + dots(o[1]), "tell": lambda o: "T", "seek": lambda o: f"S:{o[1]}", "seekset": lambda o: f"S:{o[1]}",
           "seekcur": lambda o: f"C:{o[1]}", "trunc": lambda o: "X", "truncn": lambda o: f"N:{o[1]}"}
    line = mode + "|" + ("-" if init is None else dots(init)) + "|" + ",".join(enc[o[0]](o) for o in ops)
    cases.append((line, got, disk, prog))
    os.remove(fn) if os.path.exists(fn) else None
out = subprocess.run([os.path.join(os.path.dirname(os.path.abspath(__file__)), "fdriver")], input="".join(c[0] + "\n" for c in cases), capture_output=True, text=True).stdout.split("\n")[:-1]
bad = []
for (line, got, disk, prog), mo in zip(cases, out):
    if mo == "NONE": want, wdisk = "NONE", None
    else:
        c, rs = mo.split("|")
        undot = lambda s: bytes(int(x) for x in s.split(".")) if s != "e" else b""
        want = "[" + ", ".join(fmtb(undot(r[2:])) if r[0] == "B" else r[2:] for r in rs.split(",")) + "]"; wdisk = undot(c)
    if got != want or disk != wdisk: bad.append((line, got, want, disk == wdisk))
print("histories", len(cases), "disagreements", len(bad), "ops", sum(v for k, v in dist.items() if ":" not in k))
print(dict(dist))
for b in bad[:5]: print(b)
shutil.rmtree(SCR, ignore_errors=True)
