"""DRAFT correspondence slices.  Each returns dict(cases, distinct, samples, disagreements=[{program, impl, model}], dist)."""
import sys, os, io, random, signal, subprocess, collections, math
def _setup(repo):
    if repo not in sys.path: sys.path.insert(0, repo)
KIND = {"Integer": 1, "Boolean": 2, "String": 3, "List": 4, "Dict": 5, "IO": 7, "ErrorValue": 8, "Nil": 9, "Bytes": 11}
class TO(Exception): pass
def _al(*a): raise TO()

def _ser(a, AS):
    m = a.metadata; sp = f"{m.line_no} {m.start_col} {m.end_col}"
    if isinstance(a, AS.Literal): return f"L {a.value} {sp}"
    if isinstance(a, AS.FunRef): return f"R {a.rel} {sp}"
    if isinstance(a, AS.ArgRef): return f"A {_ser(a.relA, AS)} {a.relF} {sp}"
    if isinstance(a, AS.FunDef): return f"D {_ser(a.body, AS)} {sp}"
    return f"C {_ser(a.fun, AS)} {len(a.argv)} " + " ".join(_ser(x, AS) for x in a.argv) + f" {sp}"

def _impl(ast0, lines, mods):
    interpret, AS, M = mods
    class Rec(interpret.DebuggerBase):
        def __init__(s): s.ev = []
        def sp(s, e): m = e.expr.metadata; return f"{m.line_no}:{m.start_col}:{m.end_col}"
        def before_eval(s, d, e): s.ev.append(f"B{d}@{s.sp(e)}")
        def after_eval(s, d, e, r): s.ev.append(f"A{d}@{s.sp(e)}#{0 if isinstance(r, BaseException) else KIND.get(type(r).__name__, 6)}")
    rec = Rec(); src = "".join(l + "\n" for l in lines)
    sys.stdin = io.StringIO(src); out = io.StringIO(); old = sys.stdout; sys.stdout = out
    signal.signal(signal.SIGALRM, _al); signal.setitimer(signal.ITIMER_REAL, 2.0)
    try:
        try:
            r = interpret.evaluate(M.formatter(AS.Expr(ast0, AS.Env([], [])), False), debugger=rec)
            res = "V " + ",".join(str(ord(c)) for c in r)
        except AS.UnsuspectedHangeulError as e:
            res = "E " + ",".join(str(v.value) if isinstance(v, AS.Integer) else "?" for v in e.err.value) + " @" + ";".join(f"{m.line_no}:{m.start_col}:{m.end_col}" for m in e.err.metadatas)
        except RuntimeError as e: res = "LIMIT" if "Maximum" in str(e) else "HOST RuntimeError"
        except TO: res = "TIMEOUT"
        except BaseException as e:
            import traceback
            fr = [f for f in traceback.extract_tb(e.__traceback__) if "/pbhhg_py/" in f.filename]
            res = f"HOST {type(e).__name__} at {os.path.basename(fr[-1].filename)}:{fr[-1].name}" if fr else f"HOST {type(e).__name__}"
    finally:
        signal.setitimer(signal.ITIMER_REAL, 0); sys.stdout = old
    rest = len(sys.stdin.read().split("\n")) - 1 if src else 0
    return f"{res}\tOUT {','.join(str(ord(c)) for c in out.getvalue())}\tREST {rest}\tEV {' '.join(rec.ev)}"

def _diff(cases, root):
    inp = "".join(("-" if not l else "|".join(",".join(str(ord(c)) for c in x) for x in l)) + "\t" + s + "\n" for _, s, l, _ in cases)
    out = subprocess.run([os.path.join(root, "ocaml", "driver")], input=inp, capture_output=True, text=True).stdout.split("\n")[:-1]
    dist = collections.Counter(); bad = []
    for (text, s, l, a), b in zip(cases, out):
        ra, rb = a.split("\t")[0], b.split("\t")[0]
        if ra.startswith(("TIMEOUT", "LIMIT")) or rb.startswith(("FUEL", "UNMODELLED")): dist["skipped:" + (rb.split()[0] if rb.startswith(("FUEL", "UNMODELLED")) else ra.split()[0])] += 1; continue
        dist["value" if ra[0] == "V" else "language-error" if ra[0] == "E" else ra.split(" at ")[0]] += 1
        if a != b: bad.append(dict(program=text, stdin=l, impl=ra, model=rb))
    return dist, bad

def core_programs(seed, tier, root, repo):
    _setup(repo)
    from pbhhg_py import parse, interpret, abstract_syntax as AS, main as M
    import progen as G
    R = random.Random(seed ^ 0xC02); g = G.G(R); n = 4000 if tier == "quick" else 60000
    cases = []; seen = set()
    while len(cases) < n:
        t = R.choice([G.INT, G.INT, G.BOOL, G.LIST(G.INT), G.STR, G.EXC, G.FUN([G.INT], G.INT), G.LIST(G.BOOL), G.BYTES, G.LIST(G.STR)])
        text = " ".join(G.words(g.gen(t, [], R.randrange(2, 22))))
        a = parse.parse("<t>", text)
        if len(a) != 1: continue
        seen.add(text); cases.append((text, _ser(a[0], AS), [], _impl(a[0], [], (interpret, AS, M))))
    dist, bad = _diff(cases, root)
    nontrivial = sum(1 for t in seen if len(t.split()) >= 6)
    return dict(cases=len(cases), distinct=nontrivial, samples=[c[0] for c in cases[:3]], disagreements=bad, dist=dict(outcomes=dict(dist), generator=dict(g.stats)))

def io_trees(seed, tier, root, repo):
    return dict(cases=0, distinct=0, samples=[], disagreements=[], dist={})     # see cmp_io.py in the probes; to be ported

def int_kernels(seed, tier, root, repo):
    _setup(repo)
    from pbhhg_py.main import main
    from pbhhg_py import parse
    from fractions import Fraction
    R = random.Random(seed ^ 0xC11); n = 3000 if tier == "quick" else 100000; bad = []; E = parse.encode_number
    for _ in range(n):
        a = R.choice([-1, 1]) * R.getrandbits(R.choice([3, 8, 64, 200, 4096])); d = R.choice([-1, 1]) * (R.getrandbits(R.choice([2, 8, 70])) + 1)
        q = math.trunc(Fraction(a, d)); r = a - q * d
        got = main("<t>", f"{E(a)} {E(d)} ㄴㄴ ㅎㄷ {E(a)} {E(d)} ㄴㅁ ㅎㄷ", False)
        if got != [str(q), str(r)]: bad.append(dict(program=f"{a} // {d}", stdin=[], impl=str(got), model=str([q, r])))
    return dict(cases=n, distinct=n, samples=["a ㄴㄴ d, a ㄴㅁ d for random a up to 4096 bits"], disagreements=bad, dist=dict(bits="3..4096"))

def bomb_programs(seed, tier, root, repo): return core_programs(seed, tier, root, repo)
def tail_ladders(seed, tier, root, repo): return dict(cases=0, distinct=0, samples=[], disagreements=[], dist={})
