import sys, io, random, signal, subprocess, collections, time
sys.path.insert(0, '/repo'); sys.path.insert(0, '/tmp/genprobe')
from pbhhg_py import parse, interpret, abstract_syntax as AS, main as M
import gen as Gm
KIND = {"Integer": 1, "Boolean": 2, "String": 3, "List": 4, "Dict": 5, "IO": 7, "ErrorValue": 8, "Nil": 9}
class Rec(interpret.DebuggerBase):
    def __init__(s): s.ev = []
    def sp(s, e): m = e.expr.metadata; return f"{m.line_no}:{m.start_col}:{m.end_col}"
    def before_eval(s, d, e): s.ev.append(f"B{d}@{s.sp(e)}")
    def after_eval(s, d, e, r):
        k = 0 if isinstance(r, BaseException) else KIND.get(type(r).__name__, 6)
        s.ev.append(f"A{d}@{s.sp(e)}#{k}")
def ser(a):
    m = a.metadata; sp = f"{m.line_no} {m.start_col} {m.end_col}"
    if isinstance(a, AS.Literal): return f"L {a.value} {sp}"
    if isinstance(a, AS.FunRef): return f"R {a.rel} {sp}"
    if isinstance(a, AS.ArgRef): return f"A {ser(a.relA)} {a.relF} {sp}"
    if isinstance(a, AS.FunDef): return f"D {ser(a.body)} {sp}"
    return f"C {ser(a.fun)} {len(a.argv)} " + " ".join(ser(x) for x in a.argv) + f" {sp}"
class TO(Exception): pass
def _al(*a): raise TO()
signal.signal(signal.SIGALRM, _al)
def impl(ast0, lines):
    rec = Rec(); src = "".join(l + "\n" for l in lines)
    sys.stdin = io.StringIO(src); out = io.StringIO(); old = sys.stdout; sys.stdout = out
    signal.setitimer(signal.ITIMER_REAL, 2.0)
    try:
        try:
            r = interpret.evaluate(M.formatter(AS.Expr(ast0, AS.Env([], [])), False), debugger=rec)
            res = "V " + ",".join(str(ord(c)) for c in r)
        except AS.UnsuspectedHangeulError as e:
            codes = ",".join(str(v.value) if isinstance(v, AS.Integer) else "?" for v in e.err.value)
            res = "E " + codes + " @" + ";".join(f"{m.line_no}:{m.start_col}:{m.end_col}" for m in e.err.metadatas)
        except RuntimeError as e: res = "LIMIT" if "Maximum" in str(e) else "HOST RuntimeError"
        except TO: res = "TIMEOUT"
        except BaseException as e: res = "HOST " + type(e).__name__
    finally:
        signal.setitimer(signal.ITIMER_REAL, 0); sys.stdout = old
    rest = len(sys.stdin.read().split("\n")) - 1 if src else 0
    return f"{res}\tOUT {','.join(str(ord(c)) for c in out.getvalue())}\tREST {rest}\tEV {' '.join(rec.ev)}"

E = parse.encode_number
def gen(R, d, inlam):
    c = R.random()
    if d <= 0 or c < .35:
        k = R.choice(["print","read","ret"] + (["printx","retx"] if inlam else []))
        return (k, R.randrange(0, 100)) if k in ("print","ret") else (k,)
    if c < .45: return ("discard", gen(R, d-1, inlam), gen(R, d-1, inlam))
    m = gen(R, d-1, inlam)
    f = ("lamthrow",) if R.random() < .15 else ("lam", gen(R, d-1, True))
    h = None if R.random() < .6 else ("lam", gen(R, d-1, True))
    return ("bind", m, f, h)
def text(t):
    k = t[0]
    if k == "print": return f"({E(t[1])} ㅁㅈㅎㄴ ㅈㄹㅎㄴ)"
    if k == "printx": return "(ㄱㅇㄱ ㅈㄹㅎㄴ)"
    if k == "read": return "(ㄹㅎㄱ)"
    if k == "ret": return f"({E(t[1])} ㄱㅅㅎㄴ)"
    if k == "retx": return "(ㄱㅇㄱ ㄱㅅㅎㄴ)"
    if k == "discard": return f"({text(t[1])} ({shift(t[2])} ㅎ) ㅎㄴ)"
    if k == "lam": return f"({text(t[1])} ㅎ)"
    if k == "lamthrow": return "((ㄱㅇㄱ ㄷㅂㅎㄴ ㄷㅈㅎㄴ) ㅎ)"
    m, f, h = t[1], t[2], t[3]
    return f"({text(m)} {text(f)} {text(h)} ㄱㄹㅎㄹ)" if h else f"({text(m)} {text(f)} ㄱㄹㅎㄷ)"
def shift(t):
    # body placed under one extra lambda that ignores its argument: x must refer one level further out
    return text(t).replace("ㄱㅇㄱ", "ㄱㅇㄴ") if False else text(("noxwrap", t)) if False else text_nox(t)
def text_nox(t):
    # the discarded-wrapper lambda hides x; regenerate text with x -> ㅇㄴ at depth 0 only
    return _tx(t, 1)
def _tx(t, up):
    k = t[0]; X = f"ㄱㅇ{E(up)}"
    if k == "print": return f"({E(t[1])} ㅁㅈㅎㄴ ㅈㄹㅎㄴ)"
    if k == "printx": return f"({X} ㅈㄹㅎㄴ)"
    if k == "read": return "(ㄹㅎㄱ)"
    if k == "ret": return f"({E(t[1])} ㄱㅅㅎㄴ)"
    if k == "retx": return f"({X} ㄱㅅㅎㄴ)"
    if k == "discard": return f"({_tx(t[1], up)} ({_tx(t[2], up+1)} ㅎ) ㅎㄴ)"
    m, f, h = t[1], t[2], t[3]
    tf = text(f); th = text(h) if h else None
    return f"({_tx(m, up)} {tf} {th} ㄱㄹㅎㄹ)" if h else f"({_tx(m, up)} {tf} ㄱㄹㅎㄷ)"

R = random.Random(int(sys.argv[1])); n = int(sys.argv[2])
cases = []; t0 = time.time()
while len(cases) < n:
    t = gen(R, R.randrange(1, 6), False); tx = text(t)
    asts = parse.parse("<t>", tx)
    if len(asts) != 1: continue
    lines = [R.choice(["a", "bc", "", "12", "한글"]) for _ in range(R.randrange(0, 4))]
    cases.append((tx, ser(asts[0]), lines, impl(asts[0], lines)))
t1 = time.time()
inp = "".join(("-" if not l else "|".join(",".join(str(ord(c)) for c in x) for x in l)) + "\t" + s + "\n" for _, s, l, _ in cases)
out = subprocess.run(["/tmp/dev2/driver"], input=inp, capture_output=True, text=True).stdout.split("\n")[:-1]
st = collections.Counter(); bad = []
for (tx, s, l, a), b in zip(cases, out):
    ra, rb = a.split("\t")[0], b.split("\t")[0]
    if ra.startswith(("TIMEOUT", "LIMIT")) or rb.startswith("FUEL"): st["skip"] += 1; continue
    st[ra[0] if ra[0] in "VE" else ra] += 1
    if a == b: st["agree"] += 1
    else:
        fa, fb = a.split("\t"), b.split("\t")
        bad.append((tx, l, [n for n, x, y in zip(["res", "out", "rest", "ev"], fa, fb) if x != y], fa[:3], fb[:3]))
print(dict(st), "disagreements", len(bad), "events", sum(len(a.split("\tEV ")[1].split()) for _, _, _, a in cases))
for b in bad[:4]: print(b)
