import sys, io, subprocess
sys.path.insert(0,'/repo'); sys.path.insert(0,'/tmp/dev')
from pbhhg_py import parse, abstract_syntax as AS
from pbhhg_py.main import main
exec(open('/tmp/dev2/cmp.py').read().split("class TO")[0].split("KIND =")[1].join(["KIND =",""]) if False else "")
import importlib.util
def ser(a):
    m = a.metadata; sp = f"{m.line_no} {m.start_col} {m.end_col}"
    if isinstance(a, AS.Literal): return f"L {a.value} {sp}"
    if isinstance(a, AS.FunRef): return f"R {a.rel} {sp}"
    if isinstance(a, AS.ArgRef): return f"A {ser(a.relA)} {a.relF} {sp}"
    if isinstance(a, AS.FunDef): return f"D {ser(a.body)} {sp}"
    return f"C {ser(a.fun)} {len(a.argv)} " + " ".join(ser(x) for x in a.argv) + f" {sp}"
for text in sys.argv[1:]:
    try: r = main("<t>", text, False)
    except BaseException as e: r = "EXC " + type(e).__name__ + " " + str(getattr(getattr(e,'err',None),'value',''))[:80]
    a = parse.parse("<t>", text)[0]
    o = subprocess.run(["/tmp/dev2/driver"], input="-\t" + ser(a) + "\n", capture_output=True, text=True).stdout.split("\t")[0]
    if o.startswith("V "): o = "V " + "".join(chr(int(c)) for c in o[2:].split(",") if c)
    print(text, "=> impl", r, "| model", o)
