"""Slices that touch the world: real files (C14), module import on real directory trees (C15), isolation (C20), cli.run (C18)."""
import sys, os, io, random, subprocess, collections, shutil, unicodedata, tempfile, json
import vlib, progen as G
from vlib import mods, impl_run, model_run, compare, decode_v
def res(o): return decode_v(o.split("\t")[0])
from slices_core import N
E = G.enc

def scratch(tag):
    base = os.path.join(vlib.ROOT, ".scratch"); os.makedirs(base, exist_ok=True)
    return tempfile.mkdtemp(prefix=tag + "_", dir=base)

def run_main(text, stdin=""):
    """main.main in-process -> 'V a | b', 'E codes', 'LIMIT' or 'HOST class at site'"""
    parse, interpret, AS, M = mods()
    old_in, old_out = sys.stdin, sys.stdout; sys.stdin = io.StringIO(stdin); sys.stdout = out = io.StringIO()
    try:
        try: r = "V " + " | ".join(M.main("<t>", text, False))
        except AS.UnsuspectedHangeulError as e: r = "E " + ",".join(str(v.value) if isinstance(v, AS.Integer) else "?" for v in e.err.value)
        except RecursionError as e: r = vlib.host_site(e)
        except RuntimeError as e: r = "LIMIT" if "Maximum Stack Size" in str(e) else vlib.host_site(e)
        except BaseException as e: r = vlib.host_site(e)
    finally: sys.stdin, sys.stdout = old_in, old_out
    return r, out.getvalue()

# ------------------------------------------------------------------ C14
def by(bs):
    n = int.from_bytes(bs, 'little'); return f"({E(n)} ㄴ {E(len(bs))} ㅂ ㅂ ㅂㅎㄷ ㅎㄷ ㅎㄴ)"
def st(txt): return f"({by(txt.encode('utf-8'))} ㄱ ㄴ ㅂ ㅂ ㅂㅎㄷ ㅎㄷ ㅎㄴ)"
def fmtb(bs): return "b'" + "".join(f"\\x{x:02X}" for x in bs) + "'"
MODES = {"rb": "ㄹ", "wb": "ㅈㄹ", "ab": "ㅈㄱ", "r+b": "ㄹㅈㄹ", "w+b": "ㅈㄹㄹ", "a+b": "ㅈㄱㄹ"}
def dots(bs): return ".".join(str(b) for b in bs) if bs else "e"

def file_program(fn, mode, ops):
    n = len(ops)
    def F(d): return f"ㄱ ㅇ{E(d)}"
    def opx(op, d):
        f = F(d)
        return {"read": lambda: f"({E(op[1])} ㄹ {f} ㅎㄷ)", "write": lambda: f"({by(op[1])} ㅈㄹ {f} ㅎㄷ)", "tell": lambda: f"(ㅈ {f} ㅎㄴ)",
                "seek": lambda: f"({E(op[1])} ㅈ {f} ㅎㄷ)", "seekset": lambda: f"(ㅅㅈㅂㄷ {E(op[1])} ㅈ {f} ㅎㄹ)", "seekcur": lambda: f"(ㅈㄱㅂㄷ {E(op[1])} ㅈ {f} ㅎㄹ)",
                "trunc": lambda: f"(ㄱ {f} ㅎㄴ)", "truncn": lambda: f"({E(op[1])} ㄱ {f} ㅎㄷ)", "close": lambda: f"(ㄷ {f} ㅎㄴ)"}[op[0]]()
    def build(i):
        if i == n:
            rs = " ".join(f"(ㄱ ㅇ{E(n + 1 - j)})" for j in range(1, n + 1))
            return f"((ㄷ {F(n)} ㅎㄴ) (({rs} ㅁㄹㅎ{E(n)}) ㄱㅅㅎㄴ ㅎ) ㄱㄹㅎㄷ)"
        return f"({opx(ops[i], i)} ({build(i + 1)} ㅎ) ㄱㄹㅎㄷ)"
    return f"({st(fn)} {MODES[mode]} ㄱㄴㅎㄷ) ({build(0)} ㅎ) ㄱㄹㅎㄷ"

def c14_histories(r, seed, tier, model_ok):
    """operation histories (length 1..30) x six modes x initial contents (absent / empty / 1..39 bytes) on REAL files in a scratch
    directory, run through the interpreter; every returned value and the final bytes on disk must equal the byte-array model (Files.history)"""
    R = random.Random(seed * 7919 + 0xC14); n = N(tier, 500, 12000)
    d = scratch("c14"); cwd = os.getcwd(); os.chdir(d)
    cases = []; dist = collections.Counter()
    try:
        for trial in range(n):
            mode = R.choice(list(MODES)); init = R.choice([None, b"", bytes(R.randrange(256) for _ in range(R.randrange(1, 40)))])
            if init is None and mode in ("rb", "r+b"): init = bytes(R.randrange(256) for _ in range(R.randrange(0, 6)))
            big = trial % 16 == 7          # files larger than one / two I/O buffers (4096, 8192): read-all and large counts must not stop at a buffer boundary
            if big: init = bytes(R.randrange(256) for _ in range(R.choice([4095, 4096, 4097, 5000, 8191, 8193, 12000, 20000])))
            fn = f"f{trial}.bin"
            if init is not None: open(fn, "wb").write(init)
            can_r = mode in ("rb", "r+b", "w+b", "a+b"); can_w = mode != "rb"
            ops = []
            for _ in range(R.randrange(1, 31) if not big else R.randrange(1, 7)):
                k = R.choice(["read", "write", "write", "tell", "seek", "seekset", "seekcur", "trunc", "truncn"]) if not big else R.choice(["read", "read", "read", "tell", "seekset", "write", "seekcur"])
                if k == "read" and can_r: ops.append(("read", R.choice([-1, 0, 1, 3, 100]) if not big else R.choice([-1, -1, 100, 4096, 4097, 9000, 30000])))
                elif big and k == "seekset": ops.append((k, R.choice([0, 1, 4000, 4096, 5000])))
                elif big and k == "write" and can_w: ops.append(("write", bytes(R.randrange(256) for _ in range(R.choice([3, 5000])))))
                elif k == "write" and can_w: ops.append(("write", bytes(R.randrange(256) for _ in range(R.randrange(0, 6)))))
                elif k == "tell": ops.append(("tell",))
                elif k in ("seek", "seekset"): ops.append((k, R.randrange(0, 50)))
                elif k == "seekcur": ops.append((k, R.randrange(0, 10)))
                elif k == "trunc" and can_w: ops.append(("trunc",))
                elif k == "truncn" and can_w: ops.append(("truncn", R.randrange(0, 50)))
            if not ops: ops = [("tell",)]
            for o in ops: dist[o[0]] += 1
            dist["mode:" + mode] += 1; dist["init:" + ("none" if init is None else "empty" if not init else "data")] += 1
            prog = file_program(fn, mode, ops)
            got, _ = run_main(prog)
            disk = open(fn, "rb").read() if os.path.exists(fn) else None
            enc = {"read": lambda o: f"R:{o[1]}", "write": lambda o: "W:" + dots(o[1]), "tell": lambda o: "T", "seek": lambda o: f"S:{o[1]}", "seekset": lambda o: f"S:{o[1]}",
                   "seekcur": lambda o: f"C:{o[1]}", "trunc": lambda o: "X", "truncn": lambda o: f"N:{o[1]}"}
            line = mode + "|" + ("-" if init is None else dots(init)) + "|" + ",".join(enc[o[0]](o) for o in ops)
            cases.append((line, got, disk, prog))
            if os.path.exists(fn): os.remove(fn)
    finally:
        os.chdir(cwd); shutil.rmtree(d, ignore_errors=True)
    if not model_ok: return
    out = vlib.driver("fdriver", [c[0] for c in cases])
    bad = []
    for (line, got, disk, prog), mo in zip(cases, out):
        if mo == "NONE": want, wdisk = None, None
        else:
            c, rs = mo.split("|")
            undot = lambda s: bytes(int(x) for x in s.split(".")) if s != "e" else b""
            want = "V [" + ", ".join(fmtb(undot(x[2:])) if x[0] == "B" else x[2:] for x in rs.split(",")) + "]"; wdisk = undot(c)
        if want is None:
            if not got.startswith("E 5,-7"): bad.append(dict(program=prog, history=line, impl=got, model="opening a missing file in a mode that needs it: OS error", which=["open"]))
        elif got != want or disk != wdisk:
            bad.append(dict(program=prog, history=line, impl=f"{got} disk={disk!r}"[:400], model=f"{want} disk={wdisk!r}"[:400], which=["values" if got != want else "disk"]))
    r.slice("file_histories", len(cases), len({c[0] for c in cases if c[0].count(",") >= 2}), [cases[0][0], cases[1][0]], dict(dist),
            "random op histories x 6 modes x initial contents on real files; compared: every returned value + final bytes; distinct = distinct histories of >= 3 operations", bad[:40])

def file_program_total(fn, mode, ops):
    """like file_program, but every operation runs under a reject handler that RETURNS the exception value, so the history goes on after a
    refused operation and the result list shows, per step, the value or the OS error (<예외: [5, -63, errno]>)"""
    n = len(ops)
    def F(d): return f"ㄱ ㅇ{E(d)}"
    H = "(ㄱㅇㄱ ㄱㅅㅎㄴ ㅎ)"
    def opx(op, d):
        f = F(d)
        a = {"read": lambda: f"({E(op[1])} ㄹ {f} ㅎㄷ)", "write": lambda: f"({by(op[1])} ㅈㄹ {f} ㅎㄷ)", "tell": lambda: f"(ㅈ {f} ㅎㄴ)",
             "seek": lambda: f"({E(op[1])} ㅈ {f} ㅎㄷ)", "seekset": lambda: f"(ㅅㅈㅂㄷ {E(op[1])} ㅈ {f} ㅎㄹ)", "seekcur": lambda: f"(ㅈㄱㅂㄷ {E(op[1])} ㅈ {f} ㅎㄹ)",
             "trunc": lambda: f"(ㄱ {f} ㅎㄴ)", "truncn": lambda: f"({E(op[1])} ㄱ {f} ㅎㄷ)", "close": lambda: f"(ㄷ {f} ㅎㄴ)"}[op[0]]()
        return f"({a} {H} {H} ㄱㄹㅎㄹ)"
    def build(i):
        if i == n:
            rs = " ".join(f"(ㄱ ㅇ{E(n + 1 - j)})" for j in range(1, n + 1))
            return f"((ㄷ {F(n)} ㅎㄴ) (({rs} ㅁㄹㅎ{E(n)}) ㄱㅅㅎㄴ ㅎ) ㄱㄹㅎㄷ)"
        return f"({opx(ops[i], i)} ({build(i + 1)} ㅎ) ㄱㄹㅎㄷ)"
    return f"({st(fn)} {MODES[mode]} ㄱㄴㅎㄷ) ({build(0)} ㅎ) ㄱㄹㅎㄷ"

def c14_total_histories(r, seed, tier, model_ok):
    """histories that INCLUDE what the handle refuses - operations the mode forbids, negative targets and sizes, read counts 0 / -1 / below -1,
    everything after a close, closing twice - each step under a reject handler: every value, every errno and the final bytes on disk must equal
    the total model (FilesTotal.xhistory), in which a refused operation changes nothing"""
    R = random.Random(seed * 7919 + 0xC14 + 5); n = N(tier, 400, 8000)
    d = scratch("c14t"); cwd = os.getcwd(); os.chdir(d); cases = []; dist = collections.Counter()
    try:
        for trial in range(n):
            mode = R.choice(list(MODES)); init = R.choice([None, b"", bytes(R.randrange(256) for _ in range(R.randrange(1, 20)))])
            if init is None and mode in ("rb", "r+b"): init = bytes(R.randrange(256) for _ in range(R.randrange(0, 6)))
            fn = f"t{trial}.bin"
            if init is not None: open(fn, "wb").write(init)
            ops = []
            for _ in range(R.randrange(1, 16)):
                k = R.choice(["read", "read", "write", "write", "tell", "seekset", "seekcur", "trunc", "truncn", "close", "seek"])
                if k == "read": ops.append(("read", R.choice([-1, 0, 0, 1, 3, 100, -2, -5])))
                elif k == "write": ops.append(("write", bytes(R.randrange(256) for _ in range(R.randrange(0, 5)))))
                elif k in ("tell", "trunc"): ops.append((k,))
                elif k == "close":
                    if R.random() < .45: ops.append(("close",))
                elif k in ("seek", "seekset"): ops.append((k, R.choice([0, 1, 5, 30, -1, -7])))
                elif k == "seekcur": ops.append((k, R.choice([0, 1, 4, -1, -3, -50])))
                else: ops.append(("truncn", R.choice([0, 2, 10, 40, -1, -9])))
            if not ops: ops = [("read", 0)]
            for o in ops: dist[o[0]] += 1
            dist["mode:" + mode] += 1
            prog = file_program_total(fn, mode, ops); got, _ = run_main(prog)
            disk = open(fn, "rb").read() if os.path.exists(fn) else None
            enc = {"read": lambda o: f"R:{o[1]}", "write": lambda o: "W:" + dots(o[1]), "tell": lambda o: "T", "seek": lambda o: f"S:{o[1]}", "seekset": lambda o: f"S:{o[1]}",
                   "seekcur": lambda o: f"C:{o[1]}", "trunc": lambda o: "X", "truncn": lambda o: f"N:{o[1]}", "close": lambda o: "K"}
            cases.append(("X|" + mode + "|" + ("-" if init is None else dots(init)) + "|" + ",".join(enc[o[0]](o) for o in ops), got, disk, prog))
            if os.path.exists(fn): os.remove(fn)
    finally:
        os.chdir(cwd); shutil.rmtree(d, ignore_errors=True)
    if not model_ok: return
    out = vlib.driver("fdriver", [c[0] for c in cases]); bad = []; refused = 0
    undot = lambda s: bytes(int(x) for x in s.split(".")) if s != "e" else b""
    for (line, got, disk, prog), mo in zip(cases, out):
        if mo == "NONE":
            if not got.startswith("E 5,-63"): bad.append(dict(program=prog, history=line, impl=got, model="opening a missing file in a mode that needs it: OS error", which=["open"]))
            continue
        c, rs = mo.split("|"); refused += rs.count("E:")
        show = {"B": lambda x: fmtb(undot(x)), "I": lambda x: x, "N": lambda x: "Nil", "E": lambda x: f"<예외: [5, -63, {x}]>"}
        want = "V [" + ", ".join(show[x[0]](x[2:]) for x in rs.split(",")) + "]"; wdisk = undot(c)
        if got != want or disk != wdisk:
            bad.append(dict(program=prog, history=line, impl=f"{got} disk={disk!r}"[:500], model=f"{want} disk={wdisk!r}"[:500], which=["values" if got != want else "disk"]))
    r.slice("file_total_histories", len(cases), len({c[0] for c in cases}), [cases[0][0], cases[1][0]], dict(dist, refused_steps=refused),
            "op histories incl. refused operations, closes and operations after a close x 6 modes on real files, every step under a reject handler; compared: every value / errno + final bytes vs FilesTotal.xhistory", bad[:40])

def c14_in_model(r, seed, tier, model_ok):
    """the SAME file programs through the main model (run_main_fs: values, actions, the executor, the world with a disk and handles - FileIO.v) and
    through the interpreter on real files: permitted histories, histories with refused operations and closes, opening missing files, two files
    at once, a file action as a value (compared, discarded, executed twice) - printed result, output and the final bytes of every file"""
    if not model_ok: return
    R = random.Random(seed * 7919 + 0xC14 + 9); n = N(tier, 300, 6000)
    d = scratch("c14m"); cwd = os.getcwd(); os.chdir(d); cases = []; dist = collections.Counter()
    def rnd_ops(total):
        ops = []
        for _ in range(R.randrange(1, 10)):
            k = R.choice(["read", "read", "write", "write", "tell", "seekset", "seekcur", "trunc", "truncn"] + (["close", "seek"] if total else []))
            if k == "read": ops.append(("read", R.choice([-1, 0, 1, 3, 100] + ([-2, -5] if total else []))))
            elif k == "write": ops.append(("write", bytes(R.randrange(256) for _ in range(R.randrange(0 if total else 1, 5)))))
            elif k in ("tell", "trunc", "close"): ops.append((k,))
            elif k in ("seek", "seekset"): ops.append((k, R.choice([0, 1, 5, 30] + ([-1, -7] if total else []))))
            elif k == "seekcur": ops.append((k, R.choice([0, 1, 4] + ([-1, -3, -50] if total else []))))
            else: ops.append(("truncn", R.choice([0, 2, 10, 40] + ([-1] if total else []))))
        return ops
    try:
        for trial in range(n):
            mode = R.choice(list(MODES)); init = R.choice([None, b"", bytes(R.randrange(256) for _ in range(R.randrange(1, 20)))])
            fn = f"m{trial}"; total = R.random() < .5; kind = R.random()
            can_r = mode in ("rb", "r+b", "w+b", "a+b"); can_w = mode != "rb"
            ops = rnd_ops(total)
            if not total: ops = [o for o in ops if (o[0] != "read" or can_r) and (o[0] not in ("write", "trunc", "truncn") or can_w)] or [("tell",)]
            files = {fn: init}
            if kind < .75: prog = (file_program_total if total else file_program)(fn, mode, ops); shape = "history-total" if total else "history"
            elif kind < .85:      # a second file open at the same time: what is written to one never shows in the other
                fn2 = fn + "b"; files[fn2] = b"xyz"
                prog = f"({st(fn)} {MODES[mode]} ㄱㄴㅎㄷ) (({st(fn2)} ㄹㅈㄹ ㄱㄴㅎㄷ) ((({by(b'Q')} ㅈㄹ ㄱㅇㄱ ㅎㄷ) (((ㄴㄱ ㄹ ㄱㅇㄷ ㅎㄷ) ㄱㅅ (ㄱㅇㄱ ㄱㅅㅎㄴ ㅎ) ㄱㄹㅎㄹ) ㅎ) ㄱㄹㅎㄷ) ㅎ) ㄱㄹㅎㄷ ㅎ) ㄱㄹㅎㄷ"; shape = "two-files"
            elif kind < .93:      # an action VALUE on a handle: compared with itself and with another command, built and discarded, executed twice
                prog = f"({st(fn)} {MODES[mode]} ㄱㄴㅎㄷ) (((ㄷ ㄹ ㄱㅇㄱ ㅎㄷ) ((ㄱㅇㄱ ㄱㅇㄱ ㄴㅎㄷ) (ㄱㅇㄱ (ㅈ ㄱㅇㄴ ㅎㄴ) ㄴㅎㄷ) ㅁㄹㅎㄷ ㄱㅅㅎㄴ ㅎ) ㅎㄴ) ㅎ) ㄱㄹㅎㄷ" if R.random() < .5 else \
                       f"({st(fn)} {MODES[mode]} ㄱㄴㅎㄷ) (((ㄴ ㄹ ㄱㅇㄱ ㅎㄷ) ((ㄱㅇㄱ) ((ㄱㅇㄴ) ((ㄱㅇㄱ ㄱㅇㄴ ㅁㄹㅎㄷ) ㄱㅅㅎㄴ ㅎ) ㄱㄹㅎㄷ ㅎ) ㄱㅅ ㄱㄹㅎㄹ ㅎ) ㅎㄴ) ㅎ) ㄱㄹㅎㄷ"; shape = "action-value"
            else: prog = f"({st(fn)} {MODES[mode]} ㄱㄴㅎㄷ) (ㄱㅇㄱ ㄱㅅㅎㄴ ㅎ) (ㄱㅇㄱ ㄱㅅㅎㄴ ㅎ) ㄱㄹㅎㄹ"; shape = "open-only"          # the handle itself (its printed form) or the open failure as a value
            for f_, c_ in files.items():
                if c_ is not None: open(f_, "wb").write(c_)
            got, out = run_main(prog)
            disk = {f_: (open(f_, "rb").read() if os.path.exists(f_) else None) for f_ in files}
            for f_ in files:
                if os.path.exists(f_): os.remove(f_)
            dk = ";".join(vlib.cps(f_) + "=" + dots(c_) for f_, c_ in files.items() if c_ is not None) or "-"
            cases.append((f"FS\t{dk}\t-\t{vlib.cps(prog)}", got, out, disk, prog, mode, ops if kind < .75 else shape)); dist[shape] += 1; dist["mode:" + mode] += 1
    finally:
        os.chdir(cwd); shutil.rmtree(d, ignore_errors=True)
    mo = vlib.driver("driver", [c[0] for c in cases]); bad = []; cmp_ = collections.Counter()
    for (line, got, out, disk, prog, mode, what), m in zip(cases, mo):
        if m.startswith("UNMODELLED") or m == "SKIP" or m.startswith("FUEL") or m.startswith("DRIVERFAIL"): cmp_["skipped:" + m.split()[0]] += 1; continue
        mres, mout, mdisk = m.split("\t")
        mres = vlib.decode_v(mres); md = {}
        for ent in mdisk[5:].split(";"):
            if ent:
                nm, bs = ent.split("="); md["".join(chr(int(x)) for x in nm.split(","))] = bytes(int(x) for x in bs.split(".")) if bs != "e" else b""
        want_disk = {f_: md.get(f_) for f_ in disk}
        g_ = got if not got.startswith("E ") else got          # class codes (and errno) only: run_main reports no spans
        cmp_[mres.split()[0]] += 1
        if g_ != mres.split(" @")[0] or disk != want_disk or ("OUT " + ",".join(str(ord(c)) for c in out)) != mout:
            bad.append(dict(program=prog, history=f"{mode} {what}", impl=f"{got} disk={disk!r}"[:400], model=f"{mres} disk={want_disk!r}"[:400], which=["values" if g_ != mres.split(' @')[0] else "disk"]))
    r.slice("files_in_the_main_model", len(cases), len({c[4] for c in cases}), [cases[0][4][:200]], dict(dist, **{"compared:" + k: v for k, v in cmp_.items()}),
            "file programs (permitted and total histories x 6 modes, two files at once, file actions as values, open failures) through run_main_fs of the main model vs the interpreter on real files: printed result, output, final bytes of every file", bad[:40])

def c14_faults(r, seed, tier, model_ok):
    """operations the mode forbids, operations on a closed handle, bad offsets and sizes: each must end in a language-level exception (or a
    value) and must not change the bytes on disk unless it is a permitted write"""
    R = random.Random(seed * 7919 + 0xC14 + 1); d = scratch("c14f"); cwd = os.getcwd(); os.chdir(d); bad = []; dist = collections.Counter(); n = 0
    try:
        for trial in range(N(tier, 250, 4000)):
            mode = R.choice(list(MODES)); init = bytes(R.randrange(256) for _ in range(R.randrange(0, 12))); fn = f"g{trial}.bin"; open(fn, "wb").write(init)
            pre = [R.choice([("tell",), ("seek", R.randrange(0, 20)), ("close",)]) for _ in range(R.randrange(0, 3))]
            fault = R.choice([("read", R.choice([-1, 2, -5, 2**70])), ("write", b"zz"), ("seek", R.choice([-1, -100, 2**70])), ("seekcur", -50), ("truncn", R.choice([-1, 2**70])), ("trunc",), ("close",), ("tell",)])
            prog = file_program(fn, mode, pre + [fault]); got, _ = run_main(prog); n += 1
            disk = open(fn, "rb").read()
            dist[got.split()[0] + ":" + fault[0]] += 1
            closed = ("close",) in pre
            wrote = (fault[0] == "write" and mode != "rb" and not closed) or mode in ("wb", "w+b") or (fault[0] in ("trunc", "truncn") and mode != "rb")
            if got.startswith("HOST"): bad.append(dict(program=prog, history=f"{mode} {pre} {fault}", impl=got, model="a value or a language-level exception", which=["host"]))
            elif not wrote and disk != init: bad.append(dict(program=prog, history=f"{mode} {pre} {fault}", impl=f"disk changed to {disk!r}", model=f"disk stays {init!r}", which=["disk"]))
            os.remove(fn)
        # opening itself: descriptors and paths that open() rejects before the operating system is asked (negative / oversized descriptors,
        # NUL in a path, over-long names), and the usual operating-system refusals (missing, directory, closed descriptor)
        os.makedirs("dir", exist_ok=True)
        targets = [(E(v), f"fd {v}") for v in (-1, -5, 99999, 2**31 - 1, 2**31, 2**32, 2**63, 2**64, 2**70)] + \
                  [(st(p), f"path {p[:20]!r}") for p in ("", "a\0b", "\0", "x" * 300, "y" * 5000, "dir", "dir/", "none/none", "none", ".", "/", "/proc/self/mem", "\udcff" if False else "뷁/뷁")]
        for tgt, what in targets:
            for mw in MODES.values():
                prog = f"{tgt} {mw} ㄱㄴㅎㄷ"; got, _ = run_main(prog); n += 1; dist[got.split()[0] + ":open-" + what.split()[0]] += 1
                if got.startswith("HOST"): bad.append(dict(program=prog, history=f"open {what} mode {mw}", impl=got, model="a value or a language-level exception", which=["host"]))
                prog2 = f"({tgt} {mw} ㄱㄴㅎㄷ) (ㄱㅇㄱ ㄱㅅㅎㄴ ㅎ) (ㄱ ㄱㅅㅎㄴ ㅎ) ㄱㄹㅎㄹ"; got2, _ = run_main(prog2); n += 1
                if got2.startswith("HOST"): bad.append(dict(program=prog2, history=f"open {what} mode {mw} under a reject handler", impl=got2, model="a value or a language-level exception", which=["host"]))
                for leftover in ("none", "x" * 300):
                    if os.path.exists(leftover): os.remove(leftover)
        # the DEVICE refuses the data: a full device (the failure arrives when the buffered bytes are flushed, not at write()), a pipe whose reader
        # is gone (a descriptor given to ㄱㄴ): small and large writes, then tell / close, with and without a reject handler
        def dev_cases(target, what):
            nonlocal n
            for mw in ("ㅈㄹ", "ㅈㄱ", "ㄹㅈㄹ", "ㅈㄹㄹ"):
                for size in (1, 3, 20000):
                    for tail_ in ("", "close", "tell"):
                        ops = [("write", b"x" * size)] + ([(tail_,)] if tail_ else [])
                        tgt = target()
                        if tgt is None: continue
                        prog = file_program_total("@", mw_to_mode[mw], ops).replace(st("@"), tgt); got, _ = run_main(prog); n += 1; dist[got.split()[0] + ":" + what] += 1
                        if got.startswith("HOST"): bad.append(dict(program=prog, history=f"{what} mode {mw} {ops[0][0]} {size} bytes {tail_}", impl=got, model="a value or a language-level exception", which=["host"]))
        mw_to_mode = {v: k for k, v in MODES.items()}
        if os.path.exists("/dev/full"): dev_cases(lambda: st("/dev/full"), "dev-full")
        import signal as _sg
        old_pipe = _sg.signal(_sg.SIGPIPE, _sg.SIG_IGN)
        def broken_pipe():
            rfd, wfd = os.pipe(); os.close(rfd); return E(wfd)
        try: dev_cases(broken_pipe, "broken-pipe")
        finally: _sg.signal(_sg.SIGPIPE, old_pipe)
    finally:
        os.chdir(cwd); shutil.rmtree(d, ignore_errors=True)
    r.slice("file_faults", n, n, ["mode x (0..2 harmless ops | close) x one forbidden / malformed operation"], dict(dist), "fault injection over handle states; oracle: never a host exception, disk unchanged unless a permitted write", bad[:40])

# ------------------------------------------------------------------ C15
def _norm(name):
    parse = mods()[0]; return [ord(x) for c in unicodedata.normalize("NFD", name) for x in parse.normalize_char(c)]
VOW = "ㅏㅓㅗㅜㅡㅣ"
def c15_search(r, seed, tier, model_ok):
    """random directory trees written to disk (depth <= 3, names spelled with extensions, junk prefixes, interleaved vowels, gaps), an
    import by literal path executed through the interpreter; verdict (found which file / not found / ambiguous) vs ImpSearch.search"""
    parse, interpret, AS, M = mods()
    from pbhhg_py.builtins import module as MOD
    R = random.Random(seed * 7919 + 0xC15); n = N(tier, 600, 9000); SCR = scratch("c15"); cwd = os.getcwd()
    def spell(lit):
        s = E(lit); k = R.random()
        if R.random() < .25: s = s + "ㄱㄱ" * R.randrange(1, 3)          # another spelling of the same number (zero-padded, parity kept)
        if lit == 0 and R.random() < .5: s = "ㄱ" * R.randrange(1, 5)      # zero is the one number spelled in both parities
        if k < .35: return s
        if k < .5: return s + R.choice([".txt", ".pbhhg", " ", ".ㅏ"])
        if k < .6: return R.choice(["_", " ", "1"]) + s
        if k < .8: return "".join(c + R.choice(VOW) if R.random() < .5 else c for c in s)
        if k < .9: return s + R.choice(VOW)
        return s[:1] + R.choice(["-", " x "]) + s[1:] if len(s) > 1 else s + "ㅎ"
    # numbers whose spelling BEGINS with ㅂ (lowest base-8 digit 5) but which are not 5, the heading of the built-in modules: -5 (ㅂㄱ), -13 (ㅂㄴ), 69 (ㅂㄱㄴ), -45 (ㅂㅂ)
    POOL = [0, 1, 2, -1, 8, 9, -5, -13, 69, -45]
    LITS = {}
    def gen_tree(depth, used):
        es = []; names = set(); lits = []
        for _ in range(R.randrange(0, 5)):
            lit = R.choice(POOL); nm = spell(lit)
            if nm in names or "/" in nm or nm in (".", "..") or not nm.strip(): continue
            names.add(nm)
            if depth > 0 and R.random() < .45: es.append((nm, gen_tree(depth - 1, used)))
            else: used[0] += 1; es.append((nm, used[0]))
            lits.append(lit)
        LITS[id(es)] = lits
        return es
    def walk(es):
        out = []
        while es:
            i = R.randrange(len(es)); nm, c = es[i]; out.append(LITS[id(es)][i])
            if isinstance(c, int) or R.random() < .15: return out
            es = c
        return out
    def write_tree(path, es):
        for nm, c in es:
            p = os.path.join(path, nm)
            if isinstance(c, int): open(p, "w", encoding="utf-8").write(E(c + 100))
            else: os.mkdir(p); write_tree(p, c)
    def ser(es): return "D %d " % len(es) + " ".join((".".join(map(str, _norm(nm))) or "e") + " " + (("F %d" % c) if isinstance(c, int) else ser(c)) for nm, c in es)
    cases = []; cnt = collections.Counter(); keep = []
    try:
        for i in range(n):
            d = os.path.join(SCR, "c%d" % i); os.mkdir(d); es = gen_tree(2, [0]); keep.append(es); write_tree(d, es)
            lits = walk(es) if R.random() < .75 else []
            if not lits or len(lits) > 3: lits = [R.choice(POOL) for _ in range(R.randrange(1, 4))]
            prog = " ".join(E(l) for l in lits) + " ㅂㅎ" + "ㄱㄴㄷㄹ"[len(lits)]
            MOD._MODULE_REGISTRY.clear(); os.chdir(d)
            try:
                rr = interpret.evaluate(M.formatter(AS.Expr(parse.parse("<t>", prog)[0], AS.Env([], [])), False)); got = "FOUND %d" % (int(rr) - 100)
            except AS.UnsuspectedHangeulError as e:
                code = e.err.value[1].value if len(e.err.value) > 1 and isinstance(e.err.value[1], AS.Integer) else "?"
                got = {-60: "NOTFOUND", 5: "AMBIGUOUS"}.get(code, "E %s" % code)
            except BaseException as e: got = vlib.host_site(e)
            os.chdir(SCR); cnt[got.split()[0]] += 1
            cases.append((",".join(map(str, lits)) + "|" + ser(es), got, prog))
            shutil.rmtree(d, ignore_errors=True)
    finally:
        os.chdir(cwd); shutil.rmtree(SCR, ignore_errors=True); MOD._MODULE_REGISTRY.clear()
    if not model_ok: return
    out = vlib.driver("idriver", [c[0] for c in cases])
    bad = [dict(program=c[2], tree=c[0][:300], impl=c[1], model=o, which=["search"]) for c, o in zip(cases, out) if " ".join(o.split()[:2] if o.startswith("FOUND") else o.split()[:1]) != c[1]]
    r.slice("import_search", len(cases), len({c[0] for c in cases if c[0].count("F ") >= 2}), [cases[0][0][:200]], dict(cnt),
            "random directory trees on disk x literal paths (75% drawn from existing paths); distinct = distinct trees with >= 2 files", bad[:40])

def c15_semantics(r, seed, tier, model_ok):
    """implementation-side oracles for the rest of the property: (1) the same file imported by literal path, by path string and by an
    aliased path string is ONE object (ㄴ is True) and its body is evaluated once (observer events inside the module file are seen once);
    (2) the imported value is what the file's text evaluates to on its own, from top level and from inside nested functions;
    (3) ambiguous / missing / empty / multi-expression / directory / unknown built-in modules are language-level exceptions"""
    parse, interpret, AS, M = mods()
    from pbhhg_py.builtins import module as MOD
    R = random.Random(seed * 7919 + 0xC15 + 1); SCR = scratch("c15s"); cwd = os.getcwd(); bad = []; cnt = collections.Counter(); n = 0
    bodies = ["ㄱㅇㄱ ㄴ ㄷㅎㄷ ㅎ", "ㄷ ㄹ ㄱㅎㄷ", "ㄴ ㄷ ㄹ ㅁㄹㅎㄹ", "ㄱㅇㄱ ㄱㅇㄱ ㄱㅎㄷ ㅎ", "ㄱ ㅇ ㅎ", "ㄱㅇㄴ ㅎ ㅎ"]
    def strlit(path): return st(path)
    class Rec(interpret.DebuggerBase):
        def __init__(s): s.files = collections.Counter()
        def before_eval(s, d, e):
            if e.cache_box.value is None: s.files[(e.expr.metadata.filename, e.expr.metadata.start_col, id(e))] += 1
        def after_eval(s, d, e, rr): pass
    def ev(text, rec=None):
        try: return "V " + interpret.evaluate(M.formatter(AS.Expr(parse.parse("<t>", text)[0], AS.Env([], [])), False), debugger=rec)
        except AS.UnsuspectedHangeulError as e: return "E " + ",".join(str(v.value) if isinstance(v, AS.Integer) else "?" for v in e.err.value)
        except BaseException as e: return vlib.host_site(e)
    try:
        for trial in range(N(tier, 120, 2000)):
            d = os.path.join(SCR, f"t{trial}"); os.makedirs(os.path.join(d, "ㄴ")); os.chdir(d); MOD._MODULE_REGISTRY.clear()
            body = R.choice(bodies); lit = R.choice([2, 3, 8]); fname = E(lit) + R.choice(["", ".txt", "ㅏ"]); open(os.path.join("ㄴ", fname), "w", encoding="utf-8").write(body)
            by_lit = f"ㄴ {E(lit)} ㅂㅎㄷ"; by_path = f"{strlit('ㄴ/' + fname)} ㅂㅎㄴ"; by_alias = f"{strlit('./ㄴ/../ㄴ/' + fname)} ㅂㅎㄴ"
            by_abs = f"{strlit(os.path.abspath(os.path.join('ㄴ', fname)))} ㅂㅎㄴ"
            os.symlink(os.path.join("ㄴ", fname), "link-to-module"); by_link = f"{strlit('link-to-module')} ㅂㅎㄴ"
            a, b = R.sample([by_lit, by_path, by_alias, by_abs, by_link], 2)
            is_fun = body.endswith("ㅎ")
            # (1) one object
            if is_fun:
                got = ev(f"{a} {b} ㄴㅎㄷ"); n += 1; cnt["same-object"] += 1
                if got != "V True": bad.append(dict(program=f"{a} {b} ㄴㅎㄷ", impl=got, model="V True (one module object per file)", which=["import_once"]))
            MOD._MODULE_REGISTRY.clear(); rec = Rec(); got = ev(f"{a} {b} {a} ㅁㄹㅎㄹ", rec); n += 1; cnt["evaluate-once"] += 1
            many = [k for k, v in rec.files.items() if k[0] != "<t>" and v > 1]
            if many or got.startswith("HOST"): bad.append(dict(program=f"{a} {b} {a} ㅁㄹㅎㄹ", impl=f"{got}; module expressions started uncached more than once: {many[:3]}", model="each module expression evaluated at most once", which=["import_once"]))
            # (2) context-free: alone vs. from inside nested functions with arguments in scope
            MOD._MODULE_REGISTRY.clear(); alone = ev(body) if not is_fun else ev(f"ㄷ {body} ㅎㄴ")
            MOD._MODULE_REGISTRY.clear(); top = ev(a) if not is_fun else ev(f"ㄷ {a} ㅎㄴ")
            MOD._MODULE_REGISTRY.clear(); inner_imp = a if not is_fun else f"ㄷ {a} ㅎㄴ"
            nested = ev(f"ㅁ ㅂ {inner_imp} ㅎ ㅎㄴ ㅎ ㅎㄴ".replace(f"ㅁ ㅂ {inner_imp} ㅎ ㅎㄴ ㅎ ㅎㄴ", f"ㅁ ㅂ {inner_imp} ㅎ ㅎㄴ ㅎ ㅎㄴ")) if False else ev(f"ㅂ ㅁ {inner_imp} ㅎ ㅎㄴ ㅎ ㅎㄴ")
            n += 1; cnt["context-free"] += 1
            if not (alone == top == nested): bad.append(dict(program=f"{inner_imp}   (module text: {body})", impl=f"alone={alone} top={top} nested={nested}", model="equal", which=["context_free"]))
            # (2b) one object per FILE, not per spelling: a path whose LEXICAL normal form names an already imported file but which reaches a
            # different file (".." after a symbolic link to a directory); the earlier import must not change what the later one yields
            if trial % 3 == 0:
                os.makedirs(os.path.join("pkg", "lib"), exist_ok=True); v1, v2 = R.sample(range(10, 60), 2)
                open("conf", "w").write(E(v1)); open(os.path.join("pkg", "conf"), "w").write(E(v2)); os.symlink(os.path.join("pkg", "lib"), "cur")
                first = f"{strlit('conf')} ㅂㅎㄴ"; second = f"{strlit('cur/../conf')} ㅂㅎㄴ"          # cur/../conf IS pkg/conf
                MOD._MODULE_REGISTRY.clear(); alone2 = ev(second)
                MOD._MODULE_REGISTRY.clear(); seq = [ev(first), ev(second)]; both = ev(f"{first} {second} ㅁㄹㅎㄷ"); n += 3; cnt["dotdot-through-symlinked-directory"] += 1
                if alone2 != f"V {v2}" or seq != [f"V {v1}", f"V {v2}"] or both != f"V [{v1}, {v2}]":
                    bad.append(dict(program=f"{first} ; then {second}   (cur -> pkg/lib, so cur/../conf is pkg/conf = {v2}; ./conf = {v1})", impl=f"alone: {alone2}; in sequence: {seq}; in one list: {both}", model=f"V {v2} alone and after the other import; [{v1}, {v2}] together", which=["import_once"]))
                MOD._MODULE_REGISTRY.clear()
            # (3) bad modules
            open("empty", "w").write(""); open("two", "w").write("ㄱ ㄴ"); os.makedirs("ㄹ", exist_ok=True); open("ㅁ", "w").write("ㄱ"); open("ㅁㅏ", "w").write("ㄴ")
            for what, prog in [("missing-path", f"{strlit('nope/none')} ㅂㅎㄴ"), ("empty", f"{strlit('empty')} ㅂㅎㄴ"), ("two-expressions", f"{strlit('two')} ㅂㅎㄴ"),
                               ("directory", f"{strlit('ㄹ')} ㅂㅎㄴ"), ("ambiguous", "ㅁ ㅂㅎㄴ"), ("missing-literal", "ㅅ ㅈ ㅂㅎㄷ"), ("through-file", "ㅁ ㄴ ㅂㅎㄷ"),
                               ("unknown-builtin", f"ㅂ {E(R.choice([77, 1, -3]))} ㅂㅎㄷ"), ("unknown-builtin-deep", f"ㅂ ㅂ {E(R.choice([9, 5]))} ㅂㅎㄹ"), ("dir-by-literal", "ㄹ ㅂㅎㄴ")]:
                MOD._MODULE_REGISTRY.clear(); got = ev(prog); n += 1; cnt[what + ":" + got.split()[0]] += 1
                if not got.startswith("E 5,"): bad.append(dict(program=prog, impl=got, model=f"language-level exception ({what})", which=["bad_module"]))
            # a module file with NO EXPRESSION need not be blank: every character that is no Hangul consonant is a separator, so a byte-order mark,
            # a comment in Latin letters, vowels, digits, punctuation, CRLF blank lines all make an EMPTY module - by either route, also under ㅅㄷ
            for i, body in enumerate([] if trial % 6 else ["\ufeff", "\ufeff\r\n\r\n", "# TODO: nothing here yet", "ㅏㅑㅓ", "123 456", "...", "\r\n", "\t \n", "\u3000", "\ufeff# x\n", "\x0c", "()"]):
                nm = f"ㄱㄴㄷ{'ㄱ' * (2 * i)}ㄹ"; open(nm, "w", encoding="utf-8", newline="").write(body)
                for what, prog, want in [("no-expression-by-path", f"{strlit(nm)} ㅂㅎㄴ", "E 5,"), ("no-expression-by-literal", f"{nm} ㅂㅎㄴ", "E 5,"),
                                         ("no-expression-under-try", f"({strlit(nm)} ㅂㅎㄴ) ((ㅈㅈㄱ) ㅎ) ㅅㄷㅎㄷ", "V 63"), ("no-expression-literal-under-try", f"({nm} ㅂㅎㄴ) ((ㅈㅈㄱ) ㅎ) ㅅㄷㅎㄷ", "V 63")]:
                    MOD._MODULE_REGISTRY.clear(); got = ev(prog); n += 1; cnt[what + ":" + got.split()[0]] += 1
                    if not got.startswith(want): bad.append(dict(program=prog + f"   (module text: {body!r})", impl=got, model=f"{want}... : a module without an expression is a language-level exception ({what})", which=["bad_module"]))
                os.remove(nm)
            # a bad module stays bad: importing it again in the same process (no registry reset), also as a retry inside a handler, by either route
            open("ㅅ", "w").write("ㄴ ㄷ"); MOD._MODULE_REGISTRY.clear()
            for what, prog in [("two-expressions-first", "ㅅ ㅂㅎㄴ"), ("two-expressions-again", "ㅅ ㅂㅎㄴ"), ("two-expressions-by-path", f"{strlit('ㅅ')} ㅂㅎㄴ"),
                               ("two-expressions-retry", "(ㅅ ㅂㅎㄴ) ((ㅅ ㅂㅎㄴ) ㅎ) ㅅㄷㅎㄷ"), ("empty-again", f"{strlit('empty')} ㅂㅎㄴ"), ("empty-again2", f"{strlit('empty')} ㅂㅎㄴ")]:
                got = ev(prog); n += 1; cnt[what + ":" + got.split()[0]] += 1
                if not got.startswith("E 5,"): bad.append(dict(program=prog + "   (second / later import of a module that is not exactly one expression, same process)", impl=got, model=f"the same language-level exception every time ({what})", which=["bad_module_again"]))
            # malformed path strings AFTER a module file has been imported in the same process (the registry is not empty): still language errors
            MOD._MODULE_REGISTRY.clear(); ev(by_path)
            for what, pth in [("nul-in-path", "a\0b"), ("only-nul", "\0"), ("empty-path", ""), ("overlong-path", "z" * 5000), ("nul-after-dir", "ㄴ/\0")]:
                prog = f"{strlit(pth)} ㅂㅎㄴ"; got = ev(prog); n += 1; cnt["after-import-" + what + ":" + got.split()[0]] += 1
                if not got.startswith("E 5,"): bad.append(dict(program=f"{by_path} ; then  {prog}   (second import, same process)", impl=got, model=f"language-level exception ({what})", which=["bad_module"]))
                got = ev(f"({prog}) ((ㅈㅈㄱ) ㅎ) ㅅㄷㅎㄷ"); n += 1
                if got != "V 63": bad.append(dict(program=f"{by_path} ; then  ({prog}) ((ㅈㅈㄱ) ㅎ) ㅅㄷㅎㄷ", impl=got, model=f"V 63: the handler runs ({what})", which=["bad_module"]))
            os.chdir(SCR); shutil.rmtree(d, ignore_errors=True)
    finally:
        os.chdir(cwd); shutil.rmtree(SCR, ignore_errors=True); MOD._MODULE_REGISTRY.clear()
    r.slice("import_semantics", n, n, ["ㄴ ㄷ ㅂㅎㄷ  vs  'ㄴ/ㄷ.txt' ㅂㅎㄴ"], dict(cnt), "implementation-side oracles: one object per file, evaluate once, context-free, bad modules are language errors", bad[:40])

# ------------------------------------------------------------------ C20
def _seq(cases, cwd=None, hashseed="0"):
    p = subprocess.run([vlib.PY, os.path.join(vlib.ROOT, "tools", "seq_runner.py")], input=json.dumps(dict(repo=vlib.REPO, cwd=cwd, cases=cases), ensure_ascii=False),
                       capture_output=True, text=True, env=dict(os.environ, PYTHONHASHSEED=str(hashseed)), timeout=600)
    try: return json.loads(p.stdout)
    except Exception: return [["RUNNER-FAILED " + p.stderr[-200:], "", ""]] * len(cases)

def c15_in_model(r, seed, tier, model_ok):
    """programs that import module FILES, through the interpreter in a fresh directory holding the files and through the main model on a disk
    holding the same bytes (run_main_fs: ㅂ searches the tree the disk denotes - ImpSearch.search - or takes a path string, then
    Builtins.load_from_path; ImportMain.v): both routes, the same file twice and by both routes (one object), imports from inside nested functions
    with arguments in scope, modules that import modules, modules whose expression fails or is a function, bad modules (none / several
    expressions, syntax errors, bytes that are not UTF-8, directories, missing files, ambiguous names), carriage returns and byte-order marks in
    module texts - printed result or error WITH its source location (inside the module file too) and the complete observer event trace"""
    if not model_ok: return
    R = random.Random(seed * 7919 + 0xC15 + 21); n = N(tier, 500, 10000); cases = []; shapes = collections.Counter()
    EXT = ["", "", ".txt", "ㅏ", ".py", " x", "-1"]
    def spell(lit):      # a file / directory name carrying the literal: plain jamo, syllables, with an extension or other non-consonants around
        w = E(lit); k = R.random()
        if k < .5: nm = w
        elif k < .75: nm = "".join(chr(0xAC00 + 588 * "ㄱㄲㄴㄷㄸㄹㅁㅂㅃㅅㅆㅇㅈㅉㅊㅋㅌㅍㅎ".index(c) + 28 * R.randrange(21) + R.choice([0, 0, 4, 8])) for c in w)
        else: nm = "".join(c + R.choice(["", "ㅏ", "ㅣ"]) for c in w)
        return R.choice(["", "", "_", "1."]) + nm + R.choice(EXT)
    BODIES = [("int", lambda: E(R.randrange(-9, 60))), ("list", lambda: f"{E(R.randrange(9))} {E(R.randrange(9))} ㅁㄹㅎㄷ"), ("fun1", lambda: f"ㄱㅇㄱ {E(R.randrange(1, 5))} ㄷㅎㄷ ㅎ"),
              ("fun2", lambda: "ㄱㅇㄱ ㄴㅇㄱ ㄱㅎㄷ ㅎ"), ("sum", lambda: f"{E(R.randrange(9))} {E(R.randrange(9))} ㄷㅎㄷ"), ("argref", lambda: "ㄱㅇㄱ"), ("funref", lambda: "ㄱㅇ"),
              ("throw", lambda: f"{E(R.randrange(9))} ㄷㅂㅎㄴ ㄷㅈㅎㄴ"), ("typeerr", lambda: "ㄴ (ㄱ ㅁㅈㅎㄴ) ㄷㅎㄷ"), ("multiline", lambda: f"{E(R.randrange(9))}\n {E(R.randrange(9))}\n\n  ㄷㅎㄷ"),
              ("crlf", lambda: f"{E(R.randrange(9))}\r\n{E(R.randrange(9))} ㄷㅎㄷ"), ("cr", lambda: f"{E(R.randrange(9))}\r{E(R.randrange(9))} ㄱㅎㄷ"), ("bom", lambda: f"\ufeff{E(R.randrange(9))}"),
              ("two", lambda: f"{E(R.randrange(9))} {E(R.randrange(9))}"), ("empty", lambda: R.choice(["", " \n", "# nothing", "\ufeff"])), ("syntax", lambda: R.choice(["ㄱ ㅎㄷ", "ㅎ", "ㄱ ㅇㅎ", "ㄴ ㄷ ㅎㄹ"])),
              ("syntax-line2", lambda: "ㄴ ㄷ ㄷㅎㄷ\n ㄹ ㅎㅁ"), ("action", lambda: f"{E(R.randrange(9))} ㅁㅈㅎㄴ ㅈㄹㅎㄴ"), ("io-read", lambda: "ㄹㅎㄱ"), ("dict", lambda: f"{E(1)} {E(R.randrange(9))} ㅅㅈㅎㄷ")]
    while len(cases) < n:
        files = {}; mods_ = []          # (literal path, relative path, body kind)
        for _ in range(R.randrange(1, 5)):
            depth = R.choice([1, 1, 2, 2, 3]); lits = [R.choice([0, 1, 2, 3, 8, 9, -1, -5, 64]) for _ in range(depth)]
            if lits[0] == 5: continue
            rel = "/".join(spell(l) for l in lits)
            if any(rel == q or rel.startswith(q + "/") or q.startswith(rel + "/") for q in files): continue
            kind, mk = R.choice(BODIES); body = mk()
            if kind in ("int", "sum") and R.random() < .15 and mods_:          # a module importing another module (by literals or by path)
                ol, orel, _ = R.choice(mods_); body = (" ".join(E(x) for x in ol) + f" ㅂㅎ{E(len(ol))}") if R.random() < .5 else f"{st(orel)} ㅂㅎㄴ"; kind = "imports"
            files[rel] = body.encode("utf-8") if R.random() > .04 else R.choice([b"\xff\xfe", b"\xe3\x84", b"\xc0\x80", b"\xed\xa0\x80"]); mods_.append((lits, rel, kind))
        if not mods_: continue
        if R.random() < .2:          # a second entry with the same normal form somewhere: ambiguity (or a file next to a directory of the same literal)
            lits, rel, _ = R.choice(mods_); parts = rel.split("/"); i = R.randrange(len(parts)); alt = spell(lits[i])
            if alt != parts[i]:
                rel2 = "/".join(parts[:i] + [alt] + parts[i + 1:])
                if not any(rel2 == q or rel2.startswith(q + "/") or q.startswith(rel2 + "/") for q in files): files[rel2] = E(7).encode()
        if R.random() < .3: files[R.choice(["readme", "x/y", "ㅇ", "ㅎㄱ", "a b"])] = b"not a module"
        lits, rel, kind = R.choice(mods_)
        by_lit = "(" + " ".join(E(x) for x in lits) + f" ㅂㅎ{E(len(lits))})"; by_path = f"({st(R.choice(['', './', './', './././']) + rel)} ㅂㅎㄴ)"
        imp = R.choice([by_lit, by_lit, by_path]); k = R.random(); isfun = kind in ("fun1", "fun2")
        use = (lambda x: f"({E(R.randrange(9))} {E(R.randrange(9))} {x} ㅎㄷ)") if isfun else (lambda x: x)
        if k < .2: t = use(imp); sh = "plain"
        elif k < .35: t = f"{use(by_lit)} {use(by_path)} {use(imp)} ㅁㄹㅎㄹ"; sh = "both-routes-in-a-list"
        elif k < .45: t = f"{by_lit} {by_path} ㄴㅎㄷ"; sh = "both-routes-compared"
        elif k < .6: t = f"{E(R.randrange(9))} {E(R.randrange(9))} ({E(R.randrange(9))} ({use(imp)} ㄱㅇㄱ ㄱㅇㄴ ㅁㄹㅎㄹ ㅎ) ㅎㄴ ㅎ) ㅎㄷ"; sh = "from-nested-functions"
        elif k < .7: t = f"{use(imp)} ((ㄱㅇㄱ) ㅎ) ㅅㄷㅎㄷ"; sh = "under-try"
        elif k < .78: t = f"{use(imp)} ((ㅈㅈㄱ {use(imp)} ㅁㄹㅎㄷ) ㅎ) ㅅㄷㅎㄷ"; sh = "retry-in-handler"
        elif k < .84:
            wrong = [x + R.choice([0, 0, 1]) for x in lits] if R.random() < .6 else lits + [R.choice([0, 1])]
            t = "(" + " ".join(E(x) for x in wrong) + f" ㅂㅎ{E(len(wrong))})"; sh = "literals-maybe-missing"
        elif k < .9: t = f"({st(R.choice([rel + 'x', rel.split('/')[0], 'nope', '', rel + '/']))} ㅂㅎㄴ)"; sh = "path-maybe-missing"
        elif k < .95: t = f"({st(rel[:len(rel) // 2])} {st(rel[len(rel) // 2:])} ㄷㅎㄷ) ㅂㅎㄴ"; sh = "computed-path"
        else: t = f"{by_lit} ㅁㄹㅎㄴ ({use('(ㄱ ㄱㅇㄱ ㅎㄴ)')} {use(by_path)} ㅁㄹㅎㄷ ㅎ) ㅎㄴ"; sh = "module-object-passed-on"
        cases.append(dict(text=t, files=files, stdin=["a", "b"][:R.randrange(0, 3)], floats=True)); shapes[sh] += 1; shapes["module:" + kind] += 1
    a = impl_run(cases); b = model_run(cases, tlimit=10); dist, bad = compare(cases, a, b)
    for x in bad: x["files"] = {k_: v_.decode("utf-8", "replace") for k_, v_ in next(c for c in cases if c["text"] == x["program"])["files"].items()}
    errs = collections.Counter(res(x).split(" @")[0] for x in a if res(x).startswith("E "))
    r.slice("imports_in_the_main_model", len(cases), len({(c["text"], tuple(sorted(c["files"].items()))) for c in cases}), [cases[0]["text"], cases[1]["text"]],
            dict(outcomes=dict(dist), shapes=dict(shapes), error_classes=dict(errs)),
            "generated directory trees of module files x importing programs (both routes, repeated, nested, under try, bad modules): result / error with spans and the complete event trace, interpreter on real files vs run_main_fs of the model", bad)

def main_many(r, seed, tier, model_ok):
    """main.main on texts holding SEVERAL expressions (1-5), with format_io off and on: one evaluation per expression, one after the other in one
    process - input consumed and output written by an earlier expression are gone for the later ones, a module imported by an earlier expression is
    the same (already evaluated) object for a later one, the first failure ends the run; against Machine.run_main_many (each expression started in
    the heap and world the previous one left; Refine4.machine_implements_spec_many): printed values, error with location, output, input left and
    the event trace of every evaluation"""
    if not model_ok: return
    import slices_core
    R = random.Random(seed * 7919 + 0xC20 + 77); cases = []; shapes = collections.Counter()
    base, _ = slices_core.gen_programs(R, N(tier, 300, 4000))
    FILES = {"ㄴ/ㄷ.txt": "ㄱㅇㄱ ㄱㅇㄱ ㄱㅎㄷ ㅎ".encode(), "ㄹ": "ㄴ ㄷ ㄹ ㅁㄹㅎㄹ".encode(), "ㅁ": "ㄴ ㅁㅈㅎㄴ ㅈㄹㅎㄴ".encode(), "two": "ㄱ ㄴ".encode(), "ㅂㄱ": "ㄴ ㄱ ㄴㄴㅎㄷ".encode()}
    IMPS = ["(ㄴ ㄷ ㅂㅎㄷ)", "(ㄹ ㅂㅎㄴ)", "(ㅁ ㅂㅎㄴ)", f"({st('ㄹ')} ㅂㅎㄴ)", f"({st('./ㄴ/ㄷ.txt')} ㅂㅎㄴ)", "(ㄷ (ㄴ ㄷ ㅂㅎㄷ) ㅎㄴ)", "((ㄹ ㅂㅎㄴ) ㅈㄷㅎㄴ)", f"({st('two')} ㅂㅎㄴ)", "(ㅂㄱ ㅂㅎㄴ)", "(ㅈ ㅂㅎㄴ)",
            "((ㄴ ㄷ ㅂㅎㄷ) (ㄴ ㄷ ㅂㅎㄷ) ㄴㅎㄷ)", "((ㅂㄱ ㅂㅎㄴ) (ㄱ ㅎ) ㅅㄷㅎㄷ)"]
    for _ in range(N(tier, 500, 8000)):
        k = R.randrange(1, 6); parts = []; files = None; sh = R.random()
        for _ in range(k):
            c = R.random()
            if sh < .35: parts.append(" ".join(R.choice(base)["words"]) if c < .8 else E(R.randrange(9)))
            elif sh < .7:
                if c < .6: t_, _, _ = slices_core.io_text_closed(R, R.randrange(1, 4)); parts.append(t_)
                else: parts.append(" ".join(R.choice(base)["words"]))
            else:
                files = FILES; parts.append(R.choice(IMPS) if c < .7 else " ".join(R.choice(base)["words"]))
        cases.append(dict(text=R.choice([" ", "\n", "  \n "]).join(parts), many=True, fio=R.random() < .4, files=files, stdin=[R.choice(["a", "", "bc"]) for _ in range(R.randrange(0, 5))]))
        shapes["pure" if sh < .35 else "io" if sh < .7 else "imports"] += 1; shapes[f"expressions:{k}"] += 1
    cases += [dict(text="", many=True), dict(text="ㄴ ㄷ ㅎㄹ", many=True), dict(text="ㄴ\nㄷ ㅎㅁ", many=True, stdin=["a"])]
    a = impl_run(cases); b = model_run(cases, tlimit=10); dist, bad = compare(cases, a, b)
    r.slice("main_on_several_expressions", len(cases), len({c["text"] for c in cases}), [cases[0]["text"][:200], cases[1]["text"][:200]], dict(outcomes=dict(dist), shapes=dict(shapes)),
            "texts of 1-5 expressions (pure, I/O sharing one input, imports of the same module files) through main.main - both format_io settings - vs Machine.run_main_many: printed values / first failure with its location, output, input left, every evaluation's event trace", bad)

def c20_isolation(r, seed, tier, model_ok):
    """(a) sequences of programs (pure, throwing, dictionary-heavy, I/O with canned stdin, importing; plus NEAR-COPIES of each other laid out on
    the same lines, so that every per-position / per-line memo would be shared) evaluated in ONE process in several orders and with
    repetitions: each output must equal the output of the same program alone in a fresh process; (b) the same programs under several host
    hash seeds: identical output including the text of error messages"""
    import concurrent.futures, slices_core, slices_values
    R = random.Random(seed * 7919 + 0xC20); SCR = scratch("c20")
    os.makedirs(os.path.join(SCR, "ㄴ")); open(os.path.join(SCR, "ㄴ", "ㄷ.txt"), "w", encoding="utf-8").write("ㄱㅇㄱ ㄱㅇㄱ ㄱㅎㄷ ㅎ"); open(os.path.join(SCR, "ㄹ"), "w", encoding="utf-8").write("ㄴ ㄷ ㄹ ㅁㄹㅎㄹ")
    progs = []
    base, _ = slices_core.gen_programs(R, N(tier, 60, 600))
    def layout(ws, cuts):        # words joined by spaces, newline before the words whose index is in cuts
        return "".join(("\n" if i in cuts else " " if i else "") + w for i, w in enumerate(ws))
    SW = {"ㄱ": "ㄷ", "ㄷ": "ㄱ", "ㄴ": "ㅈ", "ㅈ": "ㄴ", "ㄴㄴ": "ㄴㅁ", "ㄴㅁ": "ㄴㄴ", "ㅁㄹ": "ㄷㅂ", "ㄷㅂ": "ㅁㄹ", "ㅈㅈ": "ㄱㅈ", "ㄱㅈ": "ㅈㅈ"}
    for p in base:
        ws = p["words"]; cuts = {i for i in range(1, len(ws)) if R.random() < .35}
        progs.append(dict(text=layout(ws, cuts)))
        idx = [i for i, w in enumerate(ws) if w in SW]
        for _ in range(2):
            if idx:
                i = R.choice(idx); ws2 = list(ws); ws2[i] = SW[ws[i]]; progs.append(dict(text=layout(ws2, cuts)))       # near-copy: one name changed, same lines and columns elsewhere
    g = slices_values.EqGen(R)
    for _ in range(N(tier, 40, 400)): progs.append(dict(text=g.prog()[0]))
    # functions of two DIFFERENT kinds compared and used as the keys of one dictionary: identity is per object, not a per-kind serial number whose
    # coincidences depend on how many functions of each kind the process has made so far
    for ka_ in sorted(set(slices_values.FUN_KINDS)):
        for kb_ in sorted(set(slices_values.FUN_KINDS)):
            fa_, fb_ = g.render(("fun", ka_, 0)), g.render(("fun", kb_, 1))
            progs += [dict(text=f"{fa_} {fb_} ㄴㅎㄷ"), dict(text=f"{fa_} ㄴ {fb_} ㄷ ㅅㅈㅎㅁ ㅈㄷㅎㄴ"), dict(text=f"({fa_} {fa_} ㄴㅎㄷ) ({fa_} {fb_} ㄴㅎㄷ) ({fb_} {fb_} ㄴㅎㄷ) ㅁㄹㅎㄹ")]
    for _ in range(N(tier, 30, 300)):
        t, _, _ = slices_core.io_text_closed(R, R.randrange(1, 4)); progs.append(dict(text=t, stdin="".join(R.choice(["a", "bc", ""]) + "\n" for _ in range(R.randrange(0, 4)))))
    imps = ["ㄴ ㄷ ㅂㅎㄷ", "ㄹ ㅂㅎㄴ", "ㅁ (ㄴ ㄷ ㅂㅎㄷ) ㅎㄴ", "ㄴ ㄷ ㅂㅎㄷ ㄴ ㄷ ㅂㅎㄷ ㄴㅎㄷ", "ㅈ ㅂㅎㄴ", "ㄱ (ㄹ ㅂㅎㄴ) ㅎㄴ"]
    for t in imps * 2: progs.append(dict(text=t))
    # shared dictionaries: built-in module directories live for the whole process; sums / merges with them must not change them
    for t in ["ㅂ ((ㅂ ㅅ ㅂㅎㄷ) (ㅂ ㄱ ㅅㅈㅎㄷ) ㄷㅎㄷ) ㅎㄴ", "ㅂ ㅅ ㅂ ㅂㅎㄹ ㅂ ㅅ ㅂㄹ ㄱ ㅂㅎㅁ ㅎㄴ", "ㄱ ((ㅂ ㅂㄷ ㅂㅎㄷ) (ㄱ ㄴ ㅅㅈㅎㄷ) ㄷㅎㄷ) ㅎㄴ", "ㄹ ㅂ (ㅂ ㅂㄷ ㄱ ㅂㅎㄹ) ㅎㄷ",
              "ㄱ ((ㅂ ㅅ ㅂㄹ ㅂㅎㄹ) (ㄱ ㄴ ㅅㅈㅎㄷ) ㄷㅎㄷ) ㅎㄴ", "ㄷ ㅅㅅㅎㄴ ㅂ ㅅ ㅂㄹ ㄱ ㅂㅎㅁ ㅎㄴ", "ㄴ ((ㄴ ㄷ ㅅㅈㅎㄷ) (ㄴ ㄹ ㅅㅈㅎㄷ) ㄷㅎㄷ) ㅎㄴ", "ㅂ ㅂ ㅂㅎㄷ ㅂ ㅂ ㅂㅎㄷ ㄴㅎㄷ",
              "(ㄱㅇㄱ (ㄴ ㅁ ㅅㅈㅎㄷ) ㄷㅎㄷ ㄱㅇㄱ ㅁㄹㅎㄷ ㅎ) (ㄴ ㄷ ㅅㅈㅎㄷ) ㅎㄴ ㅁㅈ ㅁㄷㅎㄷ" ] * 2: progs.append(dict(text=t))
    # a long-lived dictionary (a built-in module's table) as the FIRST operand of several sums with different right operands, the whole result
    # printed: what one evaluation added must not be there in the next
    for mod_ in ("(ㅂ ㅂㄷ ㅂㅎㄷ)", "(ㅂ ㅅ ㅂㄹ ㅂㅎㄹ)"):
        for k_, v_ in ((3, 1), (6, 2), (9, 4), (-1, 0), (3, 7)):
            progs += [dict(text=f"{mod_} ({E(k_)} {E(v_)} ㅅㅈㅎㄷ) ㄷㅎㄷ"), dict(text=f"{mod_} ({E(k_)} {E(v_)} ㅅㅈㅎㄷ) ({E(k_ + 20)} {E(v_)} ㅅㅈㅎㄷ) ㄷㅎㄹ"), dict(text=f"{E(k_)} ({mod_} (ㅅㅈㅎㄱ) ㄷㅎㄷ) ㅎㄴ")]
    # ill-typed calls: built-ins that check several arguments at once, given 2-3 arguments of DIFFERENT kinds - the message names what it was given
    ATOMS = ["ㄷ", "(ㄷ ㅅㅅㅎㄴ)", "(ㄷ ㅁㅈㅎㄴ)", "(ㅂㄱㅎㄱ)", "(ㅈㅈㅎㄱ)", "(ㄴ ㄷ ㅁㄹㅎㄷ)", "(ㄴ ㄷ ㅅㅈㅎㄷ)", "(ㄱㅇㄱ ㅎ)", "(ㄴ ㄷㅂㅎㄴ)", "(ㄱ ㄱㅅㅎㄴ)", "(ㄷ ㅁㅈㅎㄴ ㄱ ㄴ ㅂ ㅂ ㅂㅎㄷ ㅎㄷ ㅎㄴ)"]
    OPS = ["ㅈ", "ㄴㄴ", "ㄴㅁ", "ㅅ", "ㄷ", "ㄱ", "ㄴ", "ㅁㅈ", "ㅂㅈ", "ㅅㄹ", "ㅁㄷ", "ㅅㅂ", "ㅈㄷ", "ㅈㄹ", "ㄱㄹ", "ㅅㅅ", "ㅈㅅ", "ㅂㄹ", "ㄱㄴ", "(ㅂ ㅂㄷ ㄱ ㅂㅎㄹ)", "(ㅂ ㅂㄷ ㄷ ㅂㅎㄹ)", "(ㅂ ㅂㄷ ㅂ ㅂㅎㄹ)", "(ㅂ ㅅ ㅂㄹ ㄱ ㅂㅎㅁ)", "(ㅂ ㅅ ㄱㅅ ㅂㅎㄹ)", "(ㅂ ㅅ ㅈㄱ ㅂㅎㄹ)"]
    for _ in range(N(tier, 150, 1500)):
        k = R.randrange(1, 4); args = R.sample(ATOMS, k); progs.append(dict(text=" ".join(args) + " " + R.choice(OPS) + " ㅎ" + E(k)))
    # kind twins: the same call with numerically EQUAL arguments of different kinds (0 / 0.0 / False, 1 / 1.0 / True, 2 / 2.0): a memo keyed by the
    # language's (or the host's) equality would hand one twin the other's answer - in particular an error turned into a value or back
    TW = [["ㄱ", "(ㄱ ㅅㅅㅎㄴ)", "(ㄱㅈㅎㄱ)"], ["ㄴ", "(ㄴ ㅅㅅㅎㄴ)", "(ㅈㅈㅎㄱ)"], ["ㄷ", "(ㄷ ㅅㅅㅎㄴ)"], ["ㅁ", "(ㅁ ㅅㅅㅎㄴ)"]]
    TOPS = ["ㅂ ㅂ ㅂㅎㄷ", "ㅂ ㅅ ㅂㄹ ㄱ ㅂㅎㅁ", "ㅂ ㅂㄷ ㄱ ㅂㅎㄹ", "ㅂ ㅂㄷ ㅈ ㅂㅎㄹ", "ㅂ ㅅ ㄱㅅ ㅂㅎㄹ", "ㅅ", "ㄴㄴ", "ㄴㅁ", "ㅁㄹ", "ㅅㅈ", "ㅈ", "ㅂ ㅂㅅ ㅂㅎㄷ" if False else "ㅂㅅ"]
    for _ in range(N(tier, 40, 400)):
        f = R.choice(TOPS); ar = R.randrange(1, 4); cols = [R.choice(TW) for _ in range(ar)]
        for _ in range(3):
            args = [R.choice(c) for c in cols]; call_ = " ".join(args) + f" ({f}) ㅎ{E(ar)}" if " " in f else " ".join(args) + f" {f} ㅎ{E(ar)}"
            progs.append(dict(text=call_))
            if f == "ㅂ ㅂ ㅂㅎㄷ": progs.append(dict(text=f"ㄷㄴ ({call_}) ㅎㄴ")); progs.append(dict(text=f"(ㄷ ㅁㅈㅎㄴ) ({call_}) ㅎㄴ"))       # and the codec put to use
    # results that the HOST calls equal (and of one type) but that print differently - the two real zeros, and complex zeros - produced by every
    # arithmetic route: a memo over host values (lru_cache on a wrapper, a table of results) hands the later one the earlier one's sign
    Z0 = "(ㄱ ㅅㅅㅎㄴ)"
    for pos_, neg_ in ((f"{Z0} ㄴ ㄱㅎㄷ", f"{Z0} ㄴㄱ ㄱㅎㄷ"), (f"{Z0} {Z0} ㄷㅎㄷ", f"({Z0} ㄴㄱ ㄱㅎㄷ) ({Z0} ㄴㄱ ㄱㅎㄷ) ㄷㅎㄷ"), (f"{Z0} ㄴ ㄴㄴㅎㄷ", f"{Z0} ㄴㄱ ㄴㄴㅎㄷ"),
                       (f"{Z0} ㄴ ㄴㅁㅎㄷ", f"({Z0} ㄴㄱ ㄱㅎㄷ) ㄴ ㄴㅁㅎㄷ"), (f"{Z0} ㄴ ㅅㅎㄷ", f"({Z0} ㄴㄱ ㄱㅎㄷ) ㄴ ㅅㅎㄷ"), (f"{Z0} {Z0} ㅂㅅㅎㄷ ㄴ ㄱㅎㄷ", f"{Z0} {Z0} ㅂㅅㅎㄷ ㄴㄱ ㄱㅎㄷ"),
                       (f"{Z0} ㅁㄹㅎㄴ", f"({Z0} ㄴㄱ ㄱㅎㄷ) ㅁㄹㅎㄴ"), (f"{Z0} (ㅂ ㅅ ㅂㄹ ㄱ ㅂㅎㅁ) ㅎㄴ", f"({Z0} ㄴㄱ ㄱㅎㄷ) (ㅂ ㅅ ㅂㄹ ㄱ ㅂㅎㅁ) ㅎㄴ")):
        progs += [dict(text=pos_), dict(text=neg_)] * 2
    # the VALUE of a caught exception of every failure class - printed whole and measured - evaluated several times in one process: an exception
    # value is built from what failed NOW, not from what failed earlier (class-level code lists, message caches)
    FAILS_ = ["(ㄴ ㄱ ㄴㄴㅎㄷ)", "(ㄴ (ㄱ ㅁㅈㅎㄴ) ㄷㅎㄷ)", "(ㅂ (ㄴ ㄷ ㅁㄹㅎㄷ) ㅎㄴ)", "(ㄴ ㄷ ㄹ ㅁㅈㅎㄹ)", "(ㄹ (ㄴ ㄷ ㅅㅈㅎㄷ) ㅎㄴ)", "(ㄱ ㄴㄱ ㅅㅎㄷ)", "(ㅁㅈㅎㄱ ㅂㅎㄴ)", f"({st('nope/none')} ㅂㅎㄴ)",
              "(ㅈ ㅁ ㅂㅎㄷ)", "(ㅂ ㅈㅈㅈ ㅂㅎㄷ)", f"({E(10**400)} ㅅㅅㅎㄴ)", "(ㄹ ㅁ ㄷㅂㅎㄷ ㄷㅈㅎㄴ)"]
    for f_ in FAILS_:
        for h_ in ("(ㄱㅇㄱ ㅎ)", "(ㄱㅇㄱ ㅈㄷㅎㄴ ㅎ)"): progs += [dict(text=f"{f_} {h_} ㅅㄷㅎㄷ")] * 2
    for tgt_ in (st("nope/none"), E(-1), st("")):          # file open failures through the reject handler of a bind: the OS error value, whole and measured
        for mw_ in ("ㄹ", "ㄹㅈㄹ"):
            progs += [dict(text=f"({tgt_} {mw_} ㄱㄴㅎㄷ) ㄱㅅ (ㄱㅇㄱ ㄱㅅㅎㄴ ㅎ) ㄱㄹㅎㄹ"), dict(text=f"({tgt_} {mw_} ㄱㄴㅎㄷ) ㄱㅅ ((ㄱㅇㄱ ㅈㄷㅎㄴ) ㄱㅅㅎㄴ ㅎ) ㄱㄹㅎㄹ")] * 2
    progs += [dict(text="ㄴ ㄷ ㄷ\nㅎㄷ"), dict(text="ㄴ ㄷ ㄱ\nㅎㄷ"), dict(text="ㄴ ㄷ ㄴ\nㅎㄷ"), dict(text="ㄴ ㄷ (ㄱㅇㄱ ㅎ)\nㅎㄷ")]
    uniq = list({(p["text"], p.get("stdin", "")): p for p in progs}.values())
    try:
        with concurrent.futures.ThreadPoolExecutor(vlib.NPROC) as ex:
            fresh = list(ex.map(lambda p: _seq([p], SCR)[0], uniq))
            ref = {(p["text"], p.get("stdin", "")): o for p, o in zip(uniq, fresh)}
            seqs = []
            for _ in range(N(tier, 60, 600)):
                k = R.randrange(2, 9); s = [R.choice(uniq) for _ in range(k)]
                if R.random() < .5: s = s + [s[0]] + list(reversed(s))           # repetitions and the reverse order
                seqs.append(s)
            seqs.append(uniq); seqs.append(list(reversed(uniq)))
            outs = list(ex.map(lambda s: _seq(s, SCR), seqs))
            seeds = ["0", "1", "2", "12345", "random"][:N(tier, 4, 5)]
            byseed = list(ex.map(lambda hs: _seq(uniq, SCR, hs), seeds))
    finally:
        shutil.rmtree(SCR, ignore_errors=True)
    bad = []; n = 0
    for s, o in zip(seqs, outs):
        for i, (p, got) in enumerate(zip(s, o)):
            n += 1
            if got != ref[(p["text"], p.get("stdin", ""))] and "TIMEOUT" not in got[0] + ref[(p["text"], p.get("stdin", ""))][0]:
                bad.append(dict(program=p["text"], stdin=p.get("stdin", ""), impl=f"as step {i + 1} of a sequence of {len(s)}: {got[0][:150]!r} out={got[1][:60]!r}", model=f"alone in a fresh process: {ref[(p['text'], p.get('stdin', ''))][0][:150]!r}",
                                sequence=[q["text"][:80] for q in s[:i + 1]][-4:], which=["isolation"]))
    bad2 = []
    for hs, o in zip(seeds[1:], byseed[1:]):
        for p, a, b in zip(uniq, byseed[0], o):
            if a != b and "TIMEOUT" not in a[0] + b[0]: bad2.append(dict(program=p["text"], impl=f"PYTHONHASHSEED={hs}: {b[0][:200]!r}", model=f"PYTHONHASHSEED=0: {a[0][:200]!r}", which=["hash-seed"]))
    r.slice("sequences_vs_fresh_process", n, len(uniq), [uniq[0]["text"], uniq[1]["text"]], dict(programs=len(uniq), sequences=len(seqs), steps=n, outcome_kinds=dict(collections.Counter(o[0].split()[0] for o in fresh))),
            "program sequences (orders, repetitions, near-copies on identical line layouts, imports) in one process vs each program alone in a fresh process; distinct = distinct programs", bad[:40])
    r.slice("hash_seeds", len(uniq) * len(seeds), len(uniq), [uniq[-1]["text"]], dict(seeds=seeds), "every program under several PYTHONHASHSEED values: result, error text, stdout identical", bad2[:40])
    # (c) the disk changes BETWEEN two evaluations: a module imported earlier disappears, its directory becomes a file (its path can no longer be
    # looked at: ENOTDIR), it becomes a dangling link or a link to itself (ELOOP), or a directory - and then the same process imports ANOTHER
    # module, or that one again, by either route: the answer must be the one a fresh process gives on the same (changed) disk
    X_LIT, X_PATH, Y_LIT, Y_PATH = "ㄱ ㄴ ㅂㅎㄷ", f"{st('./ㄱ/ㄴ.txt')} ㅂㅎㄴ", "ㅁ ㅂㅎㄴ", f"{st('ㅁ.txt')} ㅂㅎㄴ"
    CHANGES = {"deleted": [dict(op="unlink", path="ㄱ/ㄴ.txt")], "directory-deleted": [dict(op="rmtree", path="ㄱ")],
               "directory-now-a-file": [dict(op="rmtree", path="ㄱ"), dict(op="write", path="ㄱ", text="ㄹ")],
               "link-to-itself": [dict(op="unlink", path="ㄱ/ㄴ.txt"), dict(op="symlink", path="ㄱ/ㄴ.txt", to="ㄴ.txt")],
               "dangling-link": [dict(op="unlink", path="ㄱ/ㄴ.txt"), dict(op="symlink", path="ㄱ/ㄴ.txt", to="nowhere")],
               "now-a-directory": [dict(op="unlink", path="ㄱ/ㄴ.txt"), dict(op="mkdir", path="ㄱ/ㄴ.txt")],
               "rewritten": [dict(op="write", path="ㄱ/ㄴ.txt", text="ㅁ")], "nothing": []}
    jobs = []
    for cname, ops in CHANGES.items():
        for first in (X_LIT, X_PATH):
            for later in (Y_LIT, Y_PATH, X_LIT, X_PATH, f"({Y_LIT}) ({Y_PATH}) ㄴㅎㄷ"):
                if cname in ("rewritten", "now-a-directory") and later in (X_LIT, X_PATH): continue          # the module cache, the allowed carry-over: the same path still names something
                jobs.append((cname, ops, first, later))
    def disk_pair(j):
        cname, ops, first, later = j; outs = []
        for session in (True, False):
            d = scratch("c20d"); os.makedirs(os.path.join(d, "ㄱ")); open(os.path.join(d, "ㄱ", "ㄴ.txt"), "w", encoding="utf-8").write("ㄷ"); open(os.path.join(d, "ㅁ.txt"), "w", encoding="utf-8").write("ㄹ")
            try: outs.append(_seq(([dict(text=first)] if session else []) + [dict(text=later, disk=ops)], d)[-1])
            finally: shutil.rmtree(d, ignore_errors=True)
        return outs
    with concurrent.futures.ThreadPoolExecutor(vlib.NPROC) as ex: pairs = list(ex.map(disk_pair, jobs))
    bad3 = [dict(program=later, impl=f"after `{first}` and then the disk change '{cname}': {a[0][:150]!r}", model=f"alone in a fresh process on the changed disk: {b[0][:150]!r}", which=["isolation-disk-change"])
            for (cname, ops, first, later), (a, b) in zip(jobs, pairs) if a != b]
    r.slice("disk_changes_between_evaluations", len(jobs) * 2, len(jobs), [jobs[0][3]], dict(changes=list(CHANGES), outcome_kinds=dict(collections.Counter(b[0].split()[0] for _, b in pairs))),
            "a module imported earlier is deleted / un-stat-able / a link / a directory before the next evaluation imports another module or that one again: same answer as a fresh process on the changed disk", bad3[:40])
