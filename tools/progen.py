"""Probe: typed program generator + spelling randomiser (harness workhorse)."""
import random, unicodedata
T = "ㄱㄴㄷㄹㅁㅂㅅㅈ"
def enc(n):
    neg = n < 0; n = abs(n); o = [int(d) for d in f"{n:o}"]
    w = [T[d] for d in reversed(o)]
    if (len(w) % 2 == 0) != neg: w.append("ㄱ")
    return "".join(w)
# ---------- types ----------
INT, BOOL, STR, EXC, BYTES = "int", "bool", "str", "exc", "bytes"
def LIST(t): return ("list", t)
def FUN(args, res): return ("fun", tuple(args), res)
class G:
    def __init__(s, R): s.R = R; s.stats = {}
    def note(s, k): s.stats[k] = s.stats.get(k, 0) + 1
    def rel(s, ctx, i):           # frame i counted from innermost = 0; choose positive or negative spelling
        d = len(ctx)
        return i if s.R.random() < .75 else i - d
    def codec(s, ints=True):
        R = s.R; sch = R.choice(["ㄴ", "ㄷ"]); w = R.choice([0, 1, 2, 3, 8]) if R.random() < .9 else -1
        args = [["lit", sch], ["lit", w]] + ([["call", ["lit", R.choice(["ㅈㅈ", "ㄱㅈ"])], []]] if R.random() < .6 else [])
        return ["call", ["call", ["lit", "ㅂ"], [["lit", "ㅂ"], ["lit", "ㅂ"]]], args]
    def var(s, t, ctx):
        c = [(fi, ai) for fi, fr in enumerate(reversed(ctx)) for ai, at in enumerate(fr) if at == t]
        if not c: return None
        fi, ai = s.R.choice(c); s.note("var")
        idx = ["lit", ai] if s.R.random() < .85 else ["call", ["lit", "ㄷ"], [["lit", ai], ["lit", 0]]]
        return ["argref", idx, s.rel(ctx, fi)]
    def gen(s, t, ctx, size):
        R = s.R
        if size > 0 and R.random() < .04: s.note("throw"); return ["call", ["lit", "ㄷㅈ"], [s.gen(EXC, ctx, size - 1)]]
        if R.random() < (.5 if size <= 0 else .2):
            v = s.var(t, ctx)
            if v: return v
        if size > 1 and R.random() < .12 and t != EXC:      # application of a fresh lambda (closure creation + call)
            ats = [R.choice([INT, BOOL, LIST(INT), FUN([INT], INT)]) for _ in range(R.randrange(0, 3))]
            f = s.gen(FUN(ats, t), ctx, size // 2); s.note("apply")
            return ["call", f, [s.gen(a, ctx, size // 3) for a in ats]]
        if size > 1 and R.random() < .08:                   # if-then-else through a Boolean call
            s.note("ite"); return ["call", s.gen(BOOL, ctx, size // 3), [s.gen(t, ctx, size // 3), s.gen(t, ctx, size // 3)]]
        if size > 1 and R.random() < .05:
            s.note("try"); return ["call", ["lit", "ㅅㄷ"], [s.gen(t, ctx, size // 2), s.gen(FUN([EXC], t), ctx, size // 2)]]
        if t == INT:
            if size <= 0: return ["lit", R.choice([0, 1, 2, 3, 7, -1, 64, -9])]
            k = R.random()
            if k < .3: return ["call", ["lit", R.choice("ㄱㄷ")], [s.gen(INT, ctx, size // 2) for _ in range(R.randrange(1, 4))]]
            if k < .4: return ["call", ["lit", "ㅈㄷ"], [s.gen(LIST(INT), ctx, size - 1)]]
            if k < .5: return ["call", s.gen(LIST(INT), ctx, size // 2), [["lit", R.choice([0, 0, 1, -1, 5])]]]
            if k < .6: return ["call", ["lit", R.choice(["ㄴㄴ", "ㄴㅁ"])], [s.gen(INT, ctx, size // 2), s.gen(INT, ctx, size // 2)]]
            if k < .66: s.note("pow"); return ["call", ["lit", "ㅅ"], [s.gen(INT, ctx, size // 3), ["lit", R.choice([0, 1, 2, 3, 5, -1])]] + ([["lit", R.choice([0, 1, 7, -5, 12])]] if R.random() < .4 else [])]
            if k < .74: s.note("bitwise"); kk = R.choice("ㄱㄷㅂㅈㅁ"); f = ["call", ["lit", "ㅂ"], [["lit", "ㅂ"], ["lit", "ㅂㄷ"], ["lit", kk]]]; return ["call", f, [s.gen(INT, ctx, size // 3)] + ([] if kk == "ㅁ" else [["lit", R.choice([0, 1, 3, -2, 9])] if kk == "ㅈ" else s.gen(INT, ctx, size // 3)])]
            if k < .79: s.note("int_of_str"); return ["call", ["lit", "ㅈㅅ"], [s.gen(STR, ctx, size // 2)] + ([["lit", R.choice([2, 8, 10, 16, 36, 1, 37])]] if R.random() < .4 else [])]
            if k < .84: s.note("from_bytes"); return ["call", s.codec(ints=True), [s.gen(BYTES, ctx, size // 2)]]
            return ["lit", R.randrange(-70, 70)]
        if t == BOOL:
            if size <= 0: return ["call", ["lit", R.choice(["ㅈㅈ", "ㄱㅈ"])], []]
            k = R.random()
            if k < .3: return ["call", ["lit", "ㄴ"], [s.gen(INT, ctx, size // 2), s.gen(INT, ctx, size // 2)]]
            if k < .55: return ["call", ["lit", "ㅈ"], [s.gen(INT, ctx, size // 2), s.gen(INT, ctx, size // 2)]]
            if k < .75: return ["call", ["lit", R.choice("ㄱㄷ")], [s.gen(BOOL, ctx, size // 2) for _ in range(R.randrange(1, 3))]]
            if k < .85: return ["call", ["lit", "ㅁ"], [s.gen(BOOL, ctx, size - 1)]]
            return ["call", ["lit", R.choice(["ㅈㅈ", "ㄱㅈ"])], []]
        if t == BYTES:
            k = R.random()
            if size > 0 and k < .25: return ["call", ["lit", "ㄷ"], [s.gen(BYTES, ctx, size // 2), s.gen(BYTES, ctx, size // 2)]]
            if size > 0 and k < .4: return ["call", ["lit", "ㅂㅈ"], [s.gen(BYTES, ctx, size // 2), ["lit", R.randrange(-3, 4)], ["lit", R.randrange(-3, 6)]]]
            s.note("to_bytes"); return ["call", s.codec(ints=True), [s.gen(INT, ctx, size // 2) if size > 0 else ["lit", R.choice([0, 1, 255, 256, -1, -128, 65535, 70000])]]]
        if t == LIST(STR) and size > 0 and R.random() < .6:
            s.note("split"); return ["call", ["lit", "ㅂㄹ"], [s.gen(STR, ctx, size // 2)] + ([s.gen(STR, ctx, 0)] if R.random() < .6 else [])]
        if t == STR and size > 0 and R.random() < .2:
            s.note("join"); return ["call", ["lit", "ㄱㅁ"], [s.gen(LIST(STR), ctx, size // 2)] + ([s.gen(STR, ctx, 0)] if R.random() < .6 else [])]
        if t == STR:
            if size <= 0 or R.random() < .5: return ["call", ["lit", "ㅁㅈ"], [s.gen(INT, ctx, size - 1)]]
            return ["call", ["lit", "ㄷ"], [s.gen(STR, ctx, size // 2), s.gen(STR, ctx, size // 2)]]
        if t == EXC: return ["call", ["lit", "ㄷㅂ"], [s.gen(R.choice([INT, BOOL]), ctx, size // 2) for _ in range(R.randrange(0, 3))]]
        if t[0] == "list":
            k = R.random()
            if size > 0 and k < .2: return ["call", ["lit", "ㄷ"], [s.gen(t, ctx, size // 2), s.gen(t, ctx, size // 2)]]
            if size > 0 and k < .35 : s.note("map"); return ["call", ["lit", "ㅁㄷ"], [s.gen(t, ctx, size // 2), s.gen(FUN([t[1]], t[1]), ctx, size // 2)]]
            return ["call", ["lit", "ㅁㄹ"], [s.gen(t[1], ctx, size // 3) for _ in range(R.randrange(0, 4))]]
        if t[0] == "fun":
            s.note("fundef"); return ["fundef", s.gen(t[2], ctx + [list(t[1])], size - 1)]
        raise ValueError(t)
# ---------- skeleton words ----------
def words(a):
    k = a[0]
    if k == "lit": return [a[1] if isinstance(a[1], str) else enc(a[1])]
    if k == "argref": return words(a[1]) + ["ㅇ" + enc(a[2])]
    if k == "fundef": return words(a[1]) + ["ㅎ"]
    out = []
    for x in a[2]: out += words(x)
    f = a[1]
    out += words(f)
    return out + ["ㅎ" + enc(len(a[2]))]
# ---------- spelling randomiser ----------
CHO = {"ㄱ": [0, 1, 15], "ㄴ": [2], "ㄷ": [3, 4, 16], "ㄹ": [5], "ㅁ": [6], "ㅂ": [7, 8, 17], "ㅅ": [9, 10], "ㅇ": [11], "ㅈ": [12, 13, 14], "ㅎ": [18]}
COMPAT = {"ㄱ": "ㄱㄲㅋ", "ㄴ": "ㄴ", "ㄷ": "ㄷㄸㅌ", "ㄹ": "ㄹ", "ㅁ": "ㅁ", "ㅂ": "ㅂㅃㅍ", "ㅅ": "ㅅㅆ", "ㅇ": "ㅇ", "ㅈ": "ㅈㅉㅊ", "ㅎ": "ㅎ"}
CLUSTER = {"ㄱㅅ": "ㄳ", "ㄴㅈ": "ㄵ", "ㄹㄱ": "ㄺ", "ㄹㅁ": "ㄻ", "ㄹㅂ": "ㄼ", "ㄹㅅ": "ㄽ", "ㄹㄷ": "ㄾ", "ㅂㅅ": "ㅄ", "ㄴㅎ": "ㄶ", "ㄹㅎ": "ㅀ"}
SEPS = [" ", "  ", "\n", ", ", ".", " - ", "!", "a", " 1 ", "\t", "(", ") ", "é", "😀", "ộ", "ǖ", "ệ́"]      # the last ones: ONE character, several separators after NFD
def spell_letter(R, c):
    k = R.random()
    if k < .30: return R.choice(COMPAT[c])
    if k < .45: return chr(0x1100 + R.choice(CHO[c]))                       # conjoining choseong alone
    if k < .55:
        comp = R.choice(COMPAT[c]); return chr(0xFFA1 + (ord(comp) - 0x3131))  # halfwidth
    syl = 0xAC00 + R.choice(CHO[c]) * 588 + R.randrange(21) * 28 + (R.randrange(28) if R.random() < .5 else 0)
    return chr(syl)
def spell(R, ws):
    out = []
    skip_first = False
    for i, w in enumerate(ws):
        if skip_first: w = w[1:]; skip_first = False       # its leading ㅎ was written by the previous word's cluster letter
        elif i:
            if w[0] in "ㅇㅎ" and R.random() < .5: pass                        # implicit separator
            else: out.append(R.choice(SEPS))
        if w == "ㅇ" and i + 1 < len(ws) and ws[i + 1][0] == "ㅎ" and R.random() < .5:
            out.append("\ua977"); skip_first = True; continue                 # U+A977 (archaic ㅇㅎ cluster): one letter, TWO words - "ㅇ" and the start of "ㅎ..."
        j = 0
        while j < len(w):
            pair = w[j:j + 2]
            if pair in CLUSTER and R.random() < .25 and not (pair[1] == "ㅎ"):
                out.append(CLUSTER[pair]); j += 2; continue
            out.append(spell_letter(R, w[j])); j += 1
            if R.random() < .1: out.append(R.choice(["ㅏ", "ᅡ", "〮", "ᆨ", "ￂ"]))   # deleted characters
    text = "".join(out)
    k = R.random()
    if k < .2: text = unicodedata.normalize("NFC", text)
    elif k < .4: text = unicodedata.normalize("NFD", text)
    return text
