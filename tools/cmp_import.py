# C15 correspondence (search part): random directory trees on disk, imports by literal path through the interpreter vs the Coq search
import sys, os, random, shutil, subprocess, unicodedata, collections
sys.path.insert(0, os.environ.get('VERIF_REPO', '/repo'))
from pbhhg_py import parse, interpret, abstract_syntax as AS, main as M
from pbhhg_py.builtins import module as MOD
R = random.Random(int(sys.argv[1])); N = int(sys.argv[2])
SCR = "/tmp/c15_scratch"; shutil.rmtree(SCR, ignore_errors=True); os.makedirs(SCR)
E = parse.encode_number
def norm(name): return [ord(d) for c in unicodedata.normalize("NFD", name) for d in parse.normalize_char(c)]
VOW = "ㅏㅓㅗㅜㅡㅣ"
def spell(lit):
    s = E(lit); k = R.random()
    if k < .35: return s
    if k < .5: return s + R.choice([".txt", ".pbhhg", " ", ".ㅏ"])
    if k < .6: return R.choice(["_", " ", "1"]) + s
    if k < .8: return "".join(c + R.choice(VOW + " "*0) if R.random() < .5 else c for c in s)   # vowels are ignored
    if k < .9: return "".join(unicodedata.normalize("NFC", c + "ㅏ") if False else c for c in s) + R.choice(VOW)
    return s[:1] + R.choice(["-", " x "]) + s[1:] if len(s) > 1 else s + "ㅎ"               # interior gap / non-digit: must not match
LIT = {}; LITF = {}; LITS = {}
def walk(es):
    out = []
    while True:
        if not es: return out
        i = R.randrange(len(es)); nm, c = es[i]; out.append(LITS[id(es)][i])
        if isinstance(c, int) or R.random() < .15: return out
        es = c
def gen_tree(depth, used):
    es = []; names = set()
    for _ in range(R.randrange(0, 5)):
        lit = R.choice([0, 1, 2, -1, 8, 9]); nm = spell(lit)
        if nm in names or "/" in nm or nm in (".", "..") or not nm.strip(): continue
        names.add(nm)
        if depth > 0 and R.random() < .45: es.append((nm, gen_tree(depth - 1, used))); LIT[id(es[-1][1])] = lit
        else: used[0] += 1; es.append((nm, used[0])); LITF[(id(es), len(es) - 1)] = lit
        LITS.setdefault(id(es), []).append(lit)
    return es
def write_tree(path, es):
    for nm, c in es:
        p = os.path.join(path, nm)
        if isinstance(c, int): open(p, "w", encoding="utf-8").write(E(c + 100))
        else: os.mkdir(p); write_tree(p, c)
def ser(es): return "D %d " % len(es) + " ".join((".".join(map(str, norm(nm))) or "e") + " " + (("F %d" % c) if isinstance(c, int) else ser(c)) for nm, c in es)
cases = []; st = collections.Counter()
for i in range(N):
    d = os.path.join(SCR, "c%d" % i); os.mkdir(d); es = gen_tree(2, [0]); write_tree(d, es)
    lits = walk(es) if R.random() < .75 else []
    if not lits or len(lits) > 3: lits = [R.choice([0, 1, 2, -1, 8, 9]) for _ in range(R.randrange(1, 4))]
    prog = " ".join(E(l) for l in lits) + " ㅂㅎ" + "ㄱㄴㄷㄹ"[len(lits)]
    MOD._MODULE_REGISTRY.clear(); os.chdir(d)
    try:
        r = interpret.evaluate(M.formatter(AS.Expr(parse.parse("<t>", prog)[0], AS.Env([], [])), False)); got = "FOUND %d" % (int(r) - 100)
    except AS.UnsuspectedHangeulError as e:
        code = e.err.value[1].value if len(e.err.value) > 1 and isinstance(e.err.value[1], AS.Integer) else "?"
        got = {-60: "NOTFOUND", 5: "AMBIGUOUS"}.get(code, "E %s" % code)
    except BaseException as e: got = "HOST " + type(e).__name__
    os.chdir(SCR); st[got.split()[0]] += 1
    cases.append((",".join(map(str, lits)) + "|" + ser(es), got, prog, es))
out = subprocess.run([os.path.join(os.path.dirname(os.path.abspath(__file__)), "idriver")], input="".join(c[0] + "\n" for c in cases), capture_output=True, text=True).stdout.split("\n")[:-1]
bad = [(c[0][:200], c[1], o) for c, o in zip(cases, out) if " ".join(o.split()[:2] if o.startswith("FOUND") else o.split()[:1]) != c[1]]
print("cases", len(cases), dict(st), "disagreements", len(bad))
for b in bad[:6]: print(b)
shutil.rmtree(SCR, ignore_errors=True)
