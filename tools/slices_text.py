"""Slices about text -> tokens -> numbers -> trees: C01 (normalisation, re-spelling), C08 (literal codec), C09 (parser)."""
import random, collections, unicodedata, re, os, subprocess, itertools
import vlib, progen as G
from vlib import impl_run, model_run, compare, pmap, mods
from slices_core import N, gen_programs

# ------------------------------------------------------------------ C01: independent oracle from the Unicode character names
ATOMS = {}
def _reg(target, *names):
    for n in names: ATOMS[n] = target
_G, _N, _D, _L, _M, _B, _S, _O, _J, _H = [ord(c) for c in "ㄱㄴㄷㄹㅁㅂㅅㅇㅈㅎ"]
_reg([_G], "KIYEOK", "SSANGKIYEOK", "KHIEUKH"); _reg([_N], "NIEUN", "SSANGNIEUN"); _reg([_D], "TIKEUT", "SSANGTIKEUT", "THIEUTH", "SSANGTHIEUTH")
_reg([_L], "RIEUL", "SSANGRIEUL", "KAPYEOUNRIEUL"); _reg([_M], "MIEUM", "KAPYEOUNMIEUM")
_reg([_B], "PIEUP", "SSANGPIEUP", "PHIEUPH", "KAPYEOUNPIEUP", "KAPYEOUNSSANGPIEUP", "KAPYEOUNPHIEUPH")
_reg([_S], "SIOS", "SSANGSIOS", "PANSIOS", "CHITUEUMSIOS", "CHITUEUMSSANGSIOS", "CEONGCHIEUMSIOS", "CEONGCHIEUMSSANGSIOS")
_reg([32, _O], "IEUNG", "SSANGIEUNG", "YESIEUNG")
_reg([_J], "CIEUC", "SSANGCIEUC", "CHIEUCH", "CHITUEUMCIEUC", "CHITUEUMSSANGCIEUC", "CEONGCHIEUMCIEUC", "CEONGCHIEUMSSANGCIEUC", "CHITUEUMCHIEUCH", "CEONGCHIEUMCHIEUCH")
_reg([32, _H], "HIEUH", "SSANGHIEUH", "YEORINHIEUH", "SSANGYEORINHIEUH")
CONS_RANGES = [(0x1100, 0x115E), (0x3131, 0x314E), (0x3165, 0x3186), (0xA960, 0xA97C), (0xFFA1, 0xFFBE)]
HANGUL_RANGES = [(0x1100, 0x11FF), (0x302E, 0x302F), (0x3131, 0x318E), (0xA960, 0xA97C), (0xAC00, 0xD7AF), (0xD7B0, 0xD7C6), (0xD7CB, 0xD7FB),
                 (0xFFA1, 0xFFBE), (0xFFC2, 0xFFC7), (0xFFCA, 0xFFCF), (0xFFD2, 0xFFD7), (0xFFDA, 0xFFDC)]
def jamo_rows():
    rows = []
    for lo, hi in CONS_RANGES:
        for cp in range(lo, hi + 1):
            m = re.match(r"(?:HALFWIDTH )?HANGUL (?:CHOSEONG|LETTER) (.*)$", unicodedata.name(chr(cp)))
            rows.append((cp, [x for a in m.group(1).split("-") for x in ATOMS[a]]))
    return rows
def jamo_v_text():
    return ("From Coq Require Import NArith List.\nImport ListNotations.\nOpen Scope N_scope.\nDefinition consonant_table : list (N * list N) := [\n  "
            + ";\n  ".join(f"({cp}, [{'; '.join(map(str, o))}])" for cp, o in jamo_rows()) + "].\n")
def spec_char(c, table):
    if not any(lo <= c <= hi for lo, hi in HANGUL_RANGES): return [32]
    if 0xAC00 <= c <= 0xD7A3: return table.get(0x1100 + (c - 0xAC00) // 588, [])
    return table.get(c, [])
def collapse(l):
    out = []
    for x in l:
        if x == 32 and out and out[-1] == 32: continue
        out.append(x)
    return out

def _norm_range(rng):
    parse = mods()[0]; lo, hi = rng; out = []
    for c in range(lo, hi + 1):
        try: out.append(",".join(str(ord(x)) for x in "".join(parse.normalize(chr(c)))))
        except BaseException as e: out.append("HOST " + type(e).__name__)
    return out

def c01_exhaustive(r, seed, tier, model_ok):
    """ALL 1,114,112 code points: parse.normalize(chr(c)) == extracted model normalize (same regenerated tables: checks the
    NFD model and the translation of the dispatch) == the specification oracle built from the Unicode character names"""
    committed = open(os.path.join(vlib.COQ, "src", "Jamo.v"), encoding="utf-8").read()
    if committed != jamo_v_text(): r.problem("oracle", "coq/src/Jamo.v differs from the table regenerated from this host's unicodedata names")
    table = dict(jamo_rows())
    chunks = [(lo, min(lo + 8191, 0x10FFFF)) for lo in range(0, 0x110000, 8192)]
    impl = [x for part in pmap(_norm_range, chunks, chunksize=4) for x in part]
    bad = []; free = range(0xD7A4, 0xD7B0); nonsep = 0
    for c, got in enumerate(impl):
        if c in free: continue
        want = spec_char(c, table)
        g = [int(x) for x in got.split(",") if x] if not got.startswith("HOST") else None
        if g is None or collapse(g) != want:
            bad.append(dict(program=f"U+{c:04X} {chr(c)!r}", impl=got if g is None else "normalize -> " + "".join(chr(x) for x in g).replace(" ", "_") + ".",
                            model="specification (Unicode name): " + "".join(chr(x) for x in want).replace(" ", "_") + ".", which=["spec"]))
        if want != [32]: nonsep += 1
    r.slice("codepoints_vs_spec", len(impl), nonsep, ["U+317F ㅿ -> " + impl[0x317F], "U+AC00 가 -> " + impl[0xAC00]], dict(code_points=len(impl), hangul_points=nonsep, free_points=len(free)),
            "exhaustive: every Unicode code point through parse.normalize against the Unicode-name oracle; non-trivial = code points that are not plain separators", bad[:50])
    r.extra["exhaustive"] = True
    return impl

def c01_model_points(r, seed, tier, model_ok):
    if not model_ok: return
    chunks = [(lo, min(lo + 8191, 0x10FFFF)) for lo in range(0, 0x110000, 8192)]
    impl = [x for part in pmap(_norm_range, chunks, chunksize=4) for x in part]
    exe = os.path.join(vlib.OCAML, "driver")
    def run(group):
        p = subprocess.run([exe], input="".join(f"N\t{lo} {hi}\n" for lo, hi in group), capture_output=True, text=True)
        return p.stdout.split("\n")[:-1]
    import concurrent.futures
    groups = [chunks[i::14] for i in range(14)]
    with concurrent.futures.ThreadPoolExecutor(14) as ex: outs = list(ex.map(run, groups))
    model = [None] * 0x110000
    for g, o in zip(groups, outs):
        i = 0
        for lo, hi in g:
            for c in range(lo, hi + 1):
                model[c] = o[i] if i < len(o) else "MISSING"; i += 1
    def col(x): return ",".join(map(str, collapse([int(y) for y in x.split(",") if y]))) if not x.startswith(("HOST", "MISSING")) else x
    # compared up to merging of adjacent separators (the tokenizer merges them; NFD of a non-Hangul character may yield several characters,
    # each a separator, where the model - whose NFD is the identity outside the syllable block - yields one)
    bad = [dict(program=f"U+{c:04X}", impl=a, model=b, which=["normalize"]) for c, (a, b) in enumerate(zip(impl, model)) if col(a) != col(b)]
    r.slice("codepoints_vs_model", len(impl), sum(1 for x in impl if x != "32"), ["U+D55C 한 -> " + impl[0xD55C]], dict(code_points=len(impl)),
            "exhaustive: parse.normalize(chr(c)) vs the extracted Lex.normalize (NFD model + regenerated dispatch) on every code point", bad[:50])

def _main_out(o):
    """outcome without spans: value text or error code list"""
    return o.split("\t")[0].split(" @")[0]

def c01_respell(r, seed, tier, model_ok):
    """generated programs printed in two random same-skeleton spellings (other blocks, tense / aspirated letters, syllables with
    random vowels and finals, clusters, tone marks, Latin / emoji / newline separators, NFC / NFD): the outcome (value or error code
    list, stdout) must not change; and the model, reading the re-spelled text itself, must agree with the implementation including spans"""
    R = random.Random(seed * 7919 + 0xC01)
    progs, stats = gen_programs(R, N(tier, 800, 20000))
    base = impl_run([dict(text=p["text"], trace=False) for p in progs])
    variants = []
    for p in progs:
        for _ in range(2): variants.append(dict(text=G.spell(R, p["words"]), trace=True, origin=p["text"]))
    va = impl_run(variants)
    bad = []
    for i, p in enumerate(progs):
        for j in range(2):
            v = variants[2 * i + j]; o = va[2 * i + j]
            if _main_out(o) != _main_out(base[i]) or o.split("\t")[1] != base[i].split("\t")[1]:
                if "TIMEOUT" in o or "TIMEOUT" in base[i]: continue
                bad.append(dict(program=v["text"], impl=vlib.decode_v(_main_out(o)), model="same skeleton as: " + p["text"] + " -> " + vlib.decode_v(_main_out(base[i])), which=["respelling"]))
    r.slice("respelling", len(variants), len({v["text"] for v in variants}), [variants[0]["text"], variants[1]["text"]], dict(generator=dict(stats)),
            "each generated program re-spelled twice by tools/progen.spell; oracle: equal outcome and stdout; distinct = distinct surface texts", bad)
    if model_ok:
        vb = model_run(variants)
        dist, bad2 = compare(variants, va, vb)
        r.slice("respelled_text_vs_model", len(variants), len({v["text"] for v in variants}), [variants[2]["text"]], dict(outcomes=dict(dist)),
                "the re-spelled TEXT is read by the model's own lexer/parser (Lex.v): result, spans, stdout, trace compared", bad2)

# ------------------------------------------------------------------ C08
T = "ㄱㄴㄷㄹㅁㅂㅅㅈ"
def _codec_chunk(arg):
    parse = mods()[0]; kind, lo, hi = arg; out = []
    if kind == "enc":
        for n in range(lo, hi):
            try: out.append(parse.encode_number(n))
            except BaseException as e: out.append(vlib.host_site(e))
    else:
        for w in hi:
            try: out.append(str(parse.parse_number(w)))
            except BaseException as e: out.append(vlib.host_site(e))
    return out
def c08_codec(r, seed, tier, model_ok):
    """exhaustive: encode_number on every |n| < 2^k and parse_number on every digit word up to length L, against the extracted
    Num.encode / Num.decode and against the mathematical definition (little-endian base 8, sign by length parity)"""
    k = N(tier, 16, 21); L = N(tier, 5, 7); B = 1 << k
    ints = list(range(-B + 1, B))
    enc = [x for part in pmap(_codec_chunk, [("enc", lo, min(lo + 20000, B)) for lo in range(-B + 1, B, 20000)], chunksize=1) for x in part]
    words = ["".join(w) for l in range(1, L + 1) for w in itertools.product(T, repeat=l)]
    dec = [x for part in pmap(_codec_chunk, [("dec", 0, words[i:i + 20000]) for i in range(0, len(words), 20000)], chunksize=1) for x in part]
    bad = []
    def value(w):
        if not w or any(c not in T for c in w): return None
        v = sum(T.index(c) * 8 ** i for i, c in enumerate(w)); return -v if len(w) % 2 == 0 else v
    for n, w in zip(ints, enc):
        if value(w) != n: bad.append(dict(program=f"encode_number({n})", impl=w, model=f"a word of value {n}", which=["roundtrip"]))
    for w, d in zip(words, dec):
        if d != str(value(w)): bad.append(dict(program=f"parse_number({w})", impl=d, model=str(value(w)), which=["decode"]))
    # shortest: no strictly shorter word has the same value
    byval = {}
    for w in words:
        v = value(w)
        if v not in byval or len(w) < len(byval[v]): byval[v] = w
    for n, w in zip(ints, enc):
        if n in byval and len(byval[n]) < len(w): bad.append(dict(program=f"encode_number({n})", impl=w, model="shorter spelling exists: " + byval[n], which=["shortest"]))
    R = random.Random(seed * 7919 + 0xC08)
    bigs = [R.choice([-1, 1]) * R.getrandbits(R.choice([64, 200, 1000, 4096])) for _ in range(N(tier, 300, 5000))]
    parse = mods()[0]
    for n in bigs:
        try:
            w = parse.encode_number(n)
            if parse.parse_number(w) != n or parse.parse_number(w + "ㄱㄱ") != n or value(w) != n: bad.append(dict(program=f"encode_number({n})", impl=w, model="a spelling whose value is n", which=["roundtrip-big"]))
        except BaseException as e: bad.append(dict(program=f"encode_number({n})", impl=vlib.host_site(e), model="a spelling whose value is n", which=["roundtrip-big"]))
    r.slice("codec_exhaustive", len(ints) + len(words) + len(bigs), len(ints) + len(words), [f"{ints[5]} -> {enc[5]}", f"{words[100]} -> {dec[100]}"],
            dict(int_bound=f"|n| < 2^{k}", word_length=L, big_integers=len(bigs)), f"exhaustive |n| < 2^{k}, every word of length <= {L}, random integers up to 4096 bits; against positional notation", bad[:50])
    r.extra["exhaustive"] = True
    if model_ok:
        me = vlib.driver("driver", [f"E\t{n}" for n in ints]); md = vlib.driver("driver", ["D\t" + "".join(str(T.index(c)) for c in w) for w in words])
        bad2 = [dict(program=f"encode({n})", impl=w, model=m, which=["encode"]) for n, w, m in zip(ints, enc, me) if "".join(str(T.index(c)) if c in T else "?" for c in w) != m]
        bad2 += [dict(program=f"decode({w})", impl=d, model=m, which=["decode"]) for w, d, m in zip(words, dec, md) if d != m]
        r.slice("codec_vs_model", len(ints) + len(words), len(ints) + len(words), [f"model encode {ints[7]} = {me[7]}"], dict(), "the same exhaustive sets against the extracted Num.encode / Num.decode", bad2[:50])

def c08_spellings(r, seed, tier, model_ok):
    """a literal may be padded with pairs of zero digits wherever it occurs: as a value, an arity (ㅎ n), a nesting index (ㅇ m, n ㅇ),
    a built-in name, a module path component - the outcome must not change"""
    R = random.Random(seed * 7919 + 0xC08 + 1)
    progs, stats = gen_programs(R, N(tier, 1500, 30000))
    def pad(w):
        # pad the literal part(s) of a word: digits before / after ㅎ or ㅇ
        m = re.match(r"^([ㄱㄴㄷㄹㅁㅂㅅㅈ]*)([ㅎㅇ]?)([ㄱㄴㄷㄹㅁㅂㅅㅈ]*)$", w)
        if not m: return w
        a, k, b = m.groups()
        if a and R.random() < .5: a += "ㄱㄱ" * R.randrange(1, 3)
        if b and R.random() < .5: b += "ㄱㄱ" * R.randrange(1, 3)
        # zero is the one integer spelled in BOTH parities (ㄱ, ㄱㄱ, ㄱㄱㄱ, ...): as a value, an arity, an index
        if a and set(a) == {"ㄱ"} and R.random() < .6: a = "ㄱ" * R.randrange(1, 6)
        if b and set(b) == {"ㄱ"} and R.random() < .6: b = "ㄱ" * R.randrange(1, 6)
        if k and not b and R.random() < .3: b = "ㄱㄱ" if False else b      # bare ㅎ / ㅇ have no literal to pad
        return a + k + b
    variants = [dict(text=" ".join(pad(w) for w in p["words"]), trace=False) for p in progs]
    a = impl_run([dict(text=p["text"], trace=False) for p in progs]); b = impl_run(variants)
    bad = [dict(program=v["text"], impl=vlib.decode_v(_main_out(y)), model="unpadded: " + p["text"] + " -> " + vlib.decode_v(_main_out(x)), which=["padding"])
           for p, v, x, y in zip(progs, variants, a, b) if (_main_out(x), x.split("\t")[1]) != (_main_out(y), y.split("\t")[1]) and "TIMEOUT" not in x + y]
    # file modes, handle commands and whence words are literals too (looked up by VALUE in the mode / command / whence tables): the same file
    # programs with every literal word padded, on the same files
    import slices_world
    fprogs = []
    for i in range(N(tier, 150, 2500)):
        mode = R.choice(list(slices_world.MODES)); can_r = mode in ("rb", "r+b", "w+b", "a+b"); can_w = mode != "rb"; ops = []
        for _ in range(R.randrange(1, 7)):
            k = R.choice(["read", "write", "tell", "seekset", "seekcur", "trunc", "truncn"])
            if k == "read" and can_r: ops.append(("read", R.choice([-1, 0, 1, 3])))
            elif k == "write" and can_w: ops.append(("write", bytes(R.randrange(256) for _ in range(R.randrange(1, 4)))))
            elif k == "tell": ops.append(("tell",))
            elif k == "seekset": ops.append(("seekset", R.choice([0, 1, 5])))
            elif k == "seekcur": ops.append(("seekcur", R.choice([0, 1, 2])))
            elif k == "trunc" and can_w: ops.append(("trunc",))
            elif k == "truncn" and can_w: ops.append(("truncn", R.choice([0, 2, 9])))
        t = slices_world.file_program("f", mode, ops or [("tell",)])
        fprogs.append((t, re.sub(r"[ㄱㄴㄷㄹㅁㅂㅅㅇㅈㅎ]+", lambda m: pad(m.group(0)), t), {"f": bytes(R.randrange(256) for _ in range(R.randrange(0, 12)))}))
    fa = impl_run([dict(text=t, files=fl, trace=False) for t, _, fl in fprogs]); fb = impl_run([dict(text=v, files=fl, trace=False) for _, v, fl in fprogs])
    bad += [dict(program=v, impl=vlib.decode_v(_main_out(y)), model="unpadded: " + t + " -> " + vlib.decode_v(_main_out(x)), which=["padding-file-words"])
            for (t, v, _), x, y in zip(fprogs, fa, fb) if _main_out(x) != _main_out(y) and "TIMEOUT" not in x + y]
    changed = sum(1 for p, v in zip(progs, variants) if p["text"] != v["text"]) + sum(1 for t, v, _ in fprogs if t != v)
    r.slice("padded_spellings", len(progs), changed, [variants[0]["text"]], dict(generator=dict(stats), programs_with_a_padded_literal=changed),
            "every literal position of a generated program padded with 0-2 pairs of ㄱ - file programs (modes, handle commands, whence words) on real files included; oracle: equal outcome; distinct = programs actually changed", bad)

# ------------------------------------------------------------------ C09
def _ser(a, AS):
    m = a.metadata; sp = f"{m.line_no} {m.start_col} {m.end_col}"
    if isinstance(a, AS.Literal): return f"L {a.value} {sp}"
    if isinstance(a, AS.FunRef): return f"R {a.rel} {sp}"
    if isinstance(a, AS.ArgRef): return f"A {_ser(a.relA, AS)} {a.relF} {sp}"
    if isinstance(a, AS.FunDef): return f"D {_ser(a.body, AS)} {sp}"
    return f"C {_ser(a.fun, AS)} {len(a.argv)} " + "".join(_ser(x, AS) + " " for x in a.argv) + sp
def _parse_one(t):
    parse, _, AS, _ = mods()
    try: return "OK " + " | ".join(_ser(a, AS) for a in parse.parse("<t>", t))
    except AS.UnsuspectedHangeulError as e:
        m = e.err.metadatas[0]; codes = ",".join(str(v.value) for v in e.err.value)
        return f"SYNTAX @{m.line_no}:{m.start_col}:{m.end_col}" + ("" if codes == "5,-44" else " CODES " + codes)
    except BaseException as e: return vlib.host_site(e)

def c09_parse(r, seed, tier, model_ok):
    """(a) all token sequences up to length L over the word shapes {literal, ㅎ, ㅎn, ㅇ, ㅇm} (every malformed shape is in there);
       (b) random forests of arity 0..12 printed in postfix with random literal spellings: parse must return the same forest;
       (c) fuzzed texts over consonants of all blocks, syllables, separators, newlines: tree + every node span, or the rejection span,
           must equal the extracted model's (Lex.parse_text)"""
    R = random.Random(seed * 7919 + 0xC09)
    shapes = ["ㄴ", "ㄷㄱ", "ㅎ", "ㅎㄱ", "ㅎㄱㄱ", "ㅎㄴ", "ㅎㄷ", "ㅎㄴㄱ", "ㅇ", "ㅇㄱ", "ㅇㄴ"]
    L = N(tier, 4, 5)
    texts = [" ".join(ws) for l in range(0, L + 1) for ws in itertools.product(shapes, repeat=l)]
    nexh = len(texts)
    ALPH = "ㄱㄴㄷㅎㅇㄹㅁㅂㅅㅈ" + " \n.,a1" + "가힣꿹ᄒᆞᆫﾡￂ〮ㅿㄲㅋㄳㅀ각😀é" + "\r\t\x0b\x0c\x1c\x1e\x85\u2028\u2029\u00a0\u3000"      # every character some host routine treats as a line break or a space
    for _ in range(N(tier, 15000, 300000)): texts.append("".join(R.choice(ALPH) for _ in range(R.randrange(0, 18))))
    impl = pmap(_parse_one, texts, chunksize=500)
    bad = [dict(program=t, impl=a, model="a tree or a language-level syntax exception (code 5,-44)", which=["total"]) for t, a in zip(texts, impl) if a.startswith("HOST") or " CODES " in a]
    cnt = collections.Counter(a.split()[0] for a in impl)
    # (b) round trip of forests
    def forest(d):
        k = R.random()
        if d <= 0 or k < .3: return ("L", R.randrange(-80, 80))
        if k < .4: return ("R", R.randrange(-3, 4))
        if k < .55: return ("A", forest(d - 1), R.randrange(-3, 4))
        if k < .7: return ("D", forest(d - 1))
        return ("C", forest(d - 1), [forest(d - 1) for _ in range(R.choice([0, 1, 1, 2, 2, 3, 5, 12]) if d > 1 else R.randrange(0, 3))])
    def spelled(n): return ("ㄱ" * R.randrange(1, 6)) if n == 0 and R.random() < .5 else G.enc(n) + "ㄱㄱ" * (R.randrange(0, 3) if R.random() < .3 else 0)
    def unparse(t):
        if t[0] == "L": return [spelled(t[1])]
        if t[0] == "R": return [spelled(t[1]), "ㅇ"]
        if t[0] == "A": return unparse(t[1]) + ["ㅇ" + spelled(t[2])]
        if t[0] == "D": return unparse(t[1]) + ["ㅎ"]
        out = []
        for x in t[2]: out += unparse(x)
        return out + unparse(t[1]) + ["ㅎ" + spelled(len(t[2]))]
    def erase(s): return re.sub(r" \d+ \d+ \d+(?= |$)", "", " " + s)     # drop spans from the serialisation
    def ser(t):
        if t[0] == "L": return f"L {t[1]}"
        if t[0] == "R": return f"R {t[1]}"
        if t[0] == "A": return f"A {ser(t[1])} {t[2]}"
        if t[0] == "D": return f"D {ser(t[1])}"
        return f"C {ser(t[1])} {len(t[2])} " + "".join(ser(x) + " " for x in t[2])
    forests = [[forest(R.randrange(0, 5)) for _ in range(R.randrange(1, 4))] for _ in range(N(tier, 3000, 60000))]
    ftexts = [" ".join(w for t in f for w in unparse(t)) for f in forests]
    fimpl = pmap(_parse_one, ftexts, chunksize=500)
    def strip(s):
        # remove the three span numbers after each node
        toks = s.split(); out = []; i = 0
        def node():
            nonlocal i
            k = toks[i]; i += 1
            if k == "L" or k == "R": v = toks[i]; i += 4; return f"{k} {v}"
            if k == "A": a = node(); v = toks[i]; i += 4; return f"A {a} {v}"
            if k == "D": b = node(); i += 3; return f"D {b}"
            f = node(); n = int(toks[i]); i += 1; args = [node() for _ in range(n)]; i += 3
            return f"C {f} {n} " + "".join(x + " " for x in args)
        res = []
        while i < len(toks):
            if toks[i] == "|": i += 1; continue
            res.append(node())
        return res
    for f, t, a in zip(forests, ftexts, fimpl):
        want = [ser(x) for x in f]
        got = strip(a[3:]) if a.startswith("OK ") else a
        if got != want: bad.append(dict(program=t, impl=str(got)[:200], model="the printed forest: " + str(want)[:200], which=["parse_unparse"]))
    r.slice("parse_total_and_roundtrip", len(texts) + len(forests), len(set(texts)) + len(set(ftexts)), [texts[nexh // 2], ftexts[0]], dict(outcomes=dict(cnt), exhaustive_sequences=nexh, shapes=shapes, forests=len(forests)),
            f"all sequences of <= {L} words over {len(shapes)} word shapes + fuzzed texts + random forests (arity <= 12) printed in postfix; oracle: never a host exception, syntax errors carry code 5,-44, forests round-trip", bad[:50])
    if model_ok:
        allt = texts + ftexts; alla = impl + fimpl
        mo = vlib.driver("driver", ["P\t" + vlib.cps(t) for t in allt])
        bad2 = [dict(program=t, impl=a.split(" CODES ")[0][:300], model=b[:300], which=["parse+spans"]) for t, a, b in zip(allt, alla, mo) if a.split(" CODES ")[0] != b and not a.startswith("HOST")]
        r.slice("parse_vs_model", len(allt), len(set(allt)), [allt[-1]], dict(), "the same texts through Lex.parse_text: tree with every node's (line, start, end), or the rejection span", bad2[:50])


def c01_witness(r, seed, tier, model_ok):
    """directed search used when a C01 obligation broke and no failing input has been found: the code points (Python tables) and UTF-16 units
    (TypeScript tables) on which the regenerated normaliser and the specification's consonants differ, computed inside Coq (SpecC01.bad_points
    over all 65,536 units; WitC01.v).  The TypeScript port cannot be run in this sandbox: its witnesses are characters to try with the port."""
    import re as _re
    rc, out = vlib.sh('timeout 900 coqc -Q src "" -Q Gen "" src/WitC01.v 2>&1', cwd=vlib.COQ, timeout=1000)
    lists = _re.findall(r"=\s*(.*?)\s*:\s*list N", out, _re.S)          # "43365 :: nil" / "nil" / "[43365]" depending on open notations
    if rc != 0 or len(lists) != 2: r.problem("harness", "witness search WitC01.v did not run: " + out[-300:]); return
    bad = []
    for which, text in zip(("pbhhg_py/parse.py normalize_char", "pbhhg_js/src/parse.ts normalizeChar"), lists):
        for c in sorted(int(x) for x in _re.findall(r"\d+", text))[:20]:
            got = ""
            if which.startswith("pbhhg_py"):
                try:
                    parse, _, _, _ = vlib.mods(); got = " -> " + repr("".join(parse.normalize(chr(c))))
                except Exception as e: got = f" -> {type(e).__name__}"
            bad.append(dict(program=f"the character U+{c:04X} {chr(c)!r}", impl=f"{which}{got} (regenerated table, coq/Gen)", model="the specification's consonants for that letter (SpecC01.spec_char)", which=["table-witness"]))
    r.slice("table_witness_search", 2 * 65536, 2 * 65536, [], dict(witnesses=len(bad)), "on a broken C01 obligation: every UTF-16 unit through the regenerated Python and TypeScript normalisers vs the specification, inside Coq", bad)
