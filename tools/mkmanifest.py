#!/usr/bin/env python3
"""writes MANIFEST.json from tools/registry.py + the level texts below"""
import json, os, sys
ROOT = os.path.dirname(os.path.dirname(os.path.abspath(__file__)))
sys.path.insert(0, os.path.join(ROOT, "tools"))
from registry import PROPS
from manifest_text import TEXT, NOT_APPLICABLE
props = [json.loads(l) for l in open(os.path.join(ROOT, "properties.jsonl"), encoding="utf-8")]
checks = []
for p in props:
    pid = p["id"]
    if pid not in PROPS or pid not in TEXT: continue
    t = TEXT[pid]
    checks.append(dict(property_id=pid, quick_cmd=f"./check {pid} --tier quick", thorough_cmd=f"./check {pid} --tier thorough", evidence_file=f"/verif/evidence/{pid}.json",
                       replay_cmd_template=f"VERIF_SEED=<seed from the replay file> ./check {pid} --tier <tier from the replay file>   # the replay file {{path}} lists the failing inputs and the broken obligations",
                       engine="coq-model+correspondence",
                       level_claimed=dict(category="proof", text=t["text"], design_ref=t.get("ref", "DESIGN.md section 4." + pid)),
                       level_note=t["note"], technique=t["technique"]))
na = [dict(property_id=p["id"], reason=NOT_APPLICABLE.get(p["id"], "check not wired yet in this commit (framework under construction; see DESIGN.md)")) for p in props if p["id"] not in {c["property_id"] for c in checks}]
m = dict(version=1, setup_cmd="./setup",
         hooks=dict(guard="UNSUSPECTED_HANGEUL_VERIF", enable="no hooks: main.main, parse.parse, parse.normalize, cli.run, interpret.evaluate(debugger=) and DebuggerBase are public and sufficient; checks import pbhhg_py from /repo's working tree",
                    baseline_off_cmd="cd /repo && /venv/bin/python -m pytest -ra -q -p no:cacheprovider --timeout=900 --continue-on-collection-errors", source_commits=[], add_only=True),
         engines=[dict(name="coq-model+correspondence", path="/verif/check", serves_properties=[c["property_id"] for c in checks],
                       kind_free_text="Coq 8.16.1 development (coq/src hand-written model + proofs, coq/Gen regenerated from /repo on every run, coq/Props one theorem file per property) + extracted OCaml model run against pbhhg_py on generated inputs")],
         checks=checks, not_applicable=na,
         notes="Every check: translate /repo -> coq/Gen, make the .vo files the property needs, compile Props/Prop_<id>.v and require 'Closed under the global context' for every theorem, rebuild the extracted drivers, run the property's correspondence slices and implementation-side oracles against /repo's working tree. See DESIGN.md.")
json.dump(m, open(os.path.join(ROOT, "MANIFEST.json"), "w", encoding="utf-8"), indent=1, ensure_ascii=False)
print(len(checks), "checks;", len(na), "not applicable")
