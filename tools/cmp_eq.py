# C06 slice: equality and dictionary programs over all kinds, adversarial numeric pairs; model vs implementation
import sys, os, random, subprocess, collections
sys.argv_saved = sys.argv
from cmplib import *          # parse, interpret, AS, M, Gm, canon, ser, impl
R = random.Random(int(sys.argv[1])); n = int(sys.argv[2]); enc = Gm.enc
MP = 2**61 - 1
def call(f, args): return (" ".join(args) + " " if args else "") + f + "ㅎ" + enc(len(args))
def integer():
    k = R.random(); base = R.choice([0, 1, -1, -2, 2, 5, 2**53, 2**53 + 1, 2**60, 7])
    if k < .4: return base
    if k < .7: return base + R.choice([1, -1, 2]) * MP
    if k < .8: return R.choice([-1, -2])
    return R.randrange(-5, 6)
def atom():
    k = R.random()
    if k < .35: return enc(integer())
    if k < .55: return call("ㅅㅅ", [enc(R.choice([0, 1, -1, 2, 2**53, 2**53 + 1, 2**60, 2**61 - 1, R.randrange(-5, 6)]))])
    if k < .60: return call("ㅂ", ["ㅂ", "ㅅ", "ㅁ"])
    if k < .70: return call(R.choice(["ㅈㅈ", "ㄱㅈ"]), [])
    if k < .82: return call("ㅁㅈ", [enc(R.randrange(-3, 4))])
    if k < .88: return call("ㅂㄱ", [])
    return enc(R.randrange(-2, 3))
def val(d):
    k = R.random()
    if d <= 0 or k < .5: return atom()
    if k < .7: return call("ㅁㄹ", [val(d - 1) for _ in range(R.randrange(0, 4))])
    if k < .8: return call("ㄷㅂ", [val(d - 1) for _ in range(R.randrange(0, 3))])
    return dic(d - 1)
def dic(d):
    m = R.randrange(0, 4); kv = []
    for _ in range(m): kv += [key(d), val(d)]
    return call("ㅅㅈ", kv)
def key(d): return atom() if R.random() < .8 else val(d)
def prog():
    k = R.random(); d = R.randrange(0, 3)
    if k < .35:
        a = val(d); b = a if R.random() < .3 else val(d)
        if R.random() < .08: a = call("ㅂ", ["ㅂ", "ㅅ", "ㄴ"])       # NaN only as a top-level operand
        return call("ㄴ", [a, b])
    if k < .45: a = val(d); return call("ㄴ", [a, val(d), a])
    if k < .75: return key(1) + " " + dic(d) + " ㅎㄴ"
    if k < .9: return key(1) + " " + call("ㄷ", [dic(d), dic(d)]) + " ㅎㄴ"
    return dic(d)
def norm_dicts(s):
    # sort the entries of every {...} (the two sides sort by differently spelled float keys)
    out = []; i = 0
    def parse(i, close):
        parts = [""]; 
        while i < len(s) and s[i] != close:
            c = s[i]
            if c == "{": sub, i = parse(i + 1, "}"); parts[-1] += "{" + ", ".join(sorted(sub)) + "}"; continue
            if c in "[<(":
                cl = {"[": "]", "<": ">", "(": ")"}[c]; sub, i = parse(i + 1, cl); parts[-1] += c + ", ".join(sub) + cl; continue
            if c == "'":
                j = s.index("'", i + 1); parts[-1] += s[i:j + 1]; i = j + 1; continue
            if s.startswith(", ", i): parts.append(""); i += 2; continue
            parts[-1] += c; i += 1
        return parts, i + 1
    parts, _ = parse(0, "\0")
    return ", ".join(parts)
cases = []
while len(cases) < n:
    text = prog(); asts = parse.parse("<t>", text)
    if len(asts) != 1: continue
    cases.append((text, ser(asts[0]), impl(asts[0])))
out = subprocess.run(["/tmp/dev2/driver"], input="".join("-\t" + s + "\n" for _, s, _ in cases), capture_output=True, text=True).stdout.split("\n")[:-1]
st = collections.Counter(); bad = []
for (text, s, a), b in zip(cases, out):
    rb = b.split("\t")[0]
    if rb.startswith("V "): rb = "V " + "".join(chr(int(c)) for c in rb[2:].split(",") if c)
    if rb.startswith(("FUEL", "UNMODELLED")): st["skip:" + rb.split()[0]] += 1; continue
    st[a.split()[0] if a[0] in "VE" else " ".join(a.split()[:2])] += 1
    if a == rb or (a[0] == "V" and rb[0] == "V" and norm_dicts(a) == norm_dicts(rb)): st["agree"] += 1
    else: bad.append((text, a, rb))
print(dict(st), "disagreements", len(bad))
res = collections.Counter(a for _, _, a in cases if a in ("V True", "V False")); print("equality verdicts", dict(res))
for b in bad[:8]: print(b[0][-200:], "|", b[1][:120], "|", b[2][:120])
