# float slice: numeric tower programs, floats compared exactly (canonical F<m>p<e> form on both sides)
import sys, io, random, subprocess, collections, re, math
import os; sys.path.insert(0, os.environ.get('VERIF_REPO', '/repo')); sys.path.insert(0, '/tmp/genprobe')
from pbhhg_py import abstract_syntax as AS
from pbhhg_py import interpret, main as M, parse
import gen as Gm
def canon_float(x):
    if x != x: return "Fnan"
    if x in (math.inf, -math.inf): return "Finf" if x > 0 else "F-inf"
    if x == 0: return "F-0" if math.copysign(1, x) < 0 else "F0"
    m, e = math.frexp(x); m = int(m * 2**53); e -= 53
    while m % 2 == 0: m //= 2; e += 1
    return f"F{m}p{e}"
FL = re.compile(r"(?<![\w.])-?(?:\d+\.\d+(?:e[+-]?\d+)?|\d+e[+-]?\d+|inf|nan)(?![\w.])")
def canon(s): return FL.sub(lambda m: canon_float(float(m.group(0))), s)
def ser(a):
    m = a.metadata; sp = f"{m.line_no} {m.start_col} {m.end_col}"
    if isinstance(a, AS.Literal): return f"L {a.value} {sp}"
    if isinstance(a, AS.FunRef): return f"R {a.rel} {sp}"
    if isinstance(a, AS.ArgRef): return f"A {ser(a.relA)} {a.relF} {sp}"
    if isinstance(a, AS.FunDef): return f"D {ser(a.body)} {sp}"
    return f"C {ser(a.fun)} {len(a.argv)} " + " ".join(ser(x) for x in a.argv) + f" {sp}"
def impl(ast0):
    try:
        r = interpret.evaluate(M.formatter(AS.Expr(ast0, AS.Env([], [])), False))
        return "V " + canon(r)
    except AS.UnsuspectedHangeulError as e:
        codes = ",".join(str(v.value) if isinstance(v, AS.Integer) else "?" for v in e.err.value)
        return "E " + codes + " @" + ";".join(f"{m.line_no}:{m.start_col}:{m.end_col}" for m in e.err.metadatas)
    except BaseException as e:
        import traceback; tb = traceback.extract_tb(e.__traceback__)[-1]
        return "HOST " + type(e).__name__ + " " + tb.filename.split("/")[-1] + ":" + tb.name
R = random.Random(int(sys.argv[1])); n = int(sys.argv[2])
ARN = "ㄱㄴㄷㄹㅁㅂㅅㅈ"
def call(f, args): return " ".join(args) + " " + f + "ㅎ" + ARN[len(args)]
def integer():
    k = R.random()
    if k < .5: return R.randrange(-9, 10)
    if k < .7: return R.choice([1, -1]) * (2**R.randrange(50, 70) + R.randrange(-3, 4))
    if k < .8: return R.choice([1, -1]) * (2**R.randrange(1020, 1030) + R.randrange(-2**970, 2**970))
    if k < .9: return R.choice([1, -1]) * R.randrange(2**52, 2**54)
    return R.randrange(-10**6, 10**6)
def num(d):
    k = R.random()
    if d <= 0 or k < .25: return Gm.enc(integer())
    if k < .40: return call("ㅅㅅ", [num(d - 1)])                      # float()
    if k < .45: return call("ㅂ", ["ㅂ", "ㅅ", R.choice(["ㅁ", "ㄴ"])])  # inf / nan
    if k < .65: return call("ㄱ", [num(d - 1) for _ in range(R.randrange(1, 5))])
    if k < .90: return call("ㄷ", [num(d - 1) for _ in range(R.randrange(1, 6))])
    if k < .95: return call(call("ㅂ", ["ㅂ", "ㅅ", "ㅂㄹ", R.choice("ㄱㄴㄷㄹㅁ")]), [num(d - 1)])
    return call("ㅈㅅ", [num(d - 1)])                                   # int()
def prog():
    k = R.random(); d = R.randrange(1, 5)
    if k < .5: return num(d)
    if k < .7: return call("ㅈ", [num(d), num(d)])
    if k < .9: return call("ㄴ", [num(d), num(d)])
    return call("ㅁㄹ", [num(d), num(d), num(d)])
cases = []
while len(cases) < n:
    text = prog(); asts = parse.parse("<t>", text)
    if len(asts) != 1: continue
    cases.append((text, ser(asts[0]), impl(asts[0])))
inp = "".join("-\t" + s + "\n" for _, s, _ in cases)
out = subprocess.run(["/tmp/dev2/driver"], input=inp, capture_output=True, text=True).stdout.split("\n")[:-1]
st = collections.Counter(); bad = []
for (text, s, a), b in zip(cases, out):
    rb = b.split("\t")[0]
    if rb.startswith("V "): rb = "V " + "".join(chr(int(c)) for c in rb[2:].split(",") if c)
    if rb.startswith(("FUEL", "UNMODELLED")): st["skip:" + rb.split()[0]] += 1; continue
    st[a.split()[0] if a[0] in "VE" else a] += 1
    if a == rb: st["agree"] += 1
    else: bad.append((text, a, rb))
print(dict(st), "disagreements", len(bad))
cl = collections.Counter((a if a[0] == "H" else a.split()[0], " ".join(b.split()[:2]) if b[0]=="E" else b.split()[0]) for _, a, b in bad); print(dict(cl))
for b in [x for x in bad if x[1][0]=="V"][:8]: print(b[0][-300:], "|", b[1][:200], "|", b[2][:200])
fl = sum(1 for _, _, a in cases if "F" in a and a[0] == "V"); print("float results:", fl, "distinct", len(set(c[0] for c in cases)))
