import sys, random, subprocess, collections
sys.path.insert(0, '/repo')
from pbhhg_py import parse, abstract_syntax as AS
def ser(a):
    m = a.metadata; sp = f"{m.line_no} {m.start_col} {m.end_col}"
    if isinstance(a, AS.Literal): return f"L {a.value} {sp}"
    if isinstance(a, AS.FunRef): return f"R {a.rel} {sp}"
    if isinstance(a, AS.ArgRef): return f"A {ser(a.relA)} {a.relF} {sp}"
    if isinstance(a, AS.FunDef): return f"D {ser(a.body)} {sp}"
    return f"C {ser(a.fun)} {len(a.argv)} " + "".join(ser(x) + " " for x in a.argv) + sp
R = random.Random(int(sys.argv[1])); n = int(sys.argv[2]); texts = []
ALPH = "ㄱㄴㄷㅎㅇㄹㅁㅂㅅㅈ" + " \n.,a1" + "가힣꿹ᄒᆞᆫﾡￂ〮ㅿㄲㅋㄳㅀ각😀é"
for _ in range(n):
    texts.append("".join(R.choice(ALPH) for _ in range(R.randrange(0, 18))))
exp = []
for t in texts:
    try: exp.append("OK " + " | ".join(ser(a) for a in parse.parse("<t>", t)))
    except AS.UnsuspectedHangeulError as e:
        m = e.err.metadatas[0]; exp.append(f"SYNTAX @{m.line_no}:{m.start_col}:{m.end_col}")
    except BaseException as e: exp.append("HOST " + type(e).__name__)
inp = "".join("P\t" + ",".join(str(ord(c)) for c in t) + "\n" for t in texts)
out = subprocess.run(["/tmp/vt/ocaml/driver"], input=inp, capture_output=True, text=True).stdout.split("\n")[:-1]
bad = [(t, a, b) for t, a, b in zip(texts, exp, out) if a != b]
print(collections.Counter(e.split()[0] for e in exp), "disagreements", len(bad))
for b in bad[:4]: print(repr(b[0]), "|", b[1][:120], "|", b[2][:120])
