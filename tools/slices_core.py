"""Correspondence slices over whole programs: typed random programs with observer traces, I/O bind trees, bombs, faults.
Every slice:  f(r: vlib.Result, seed, tier, model_ok)  and reports through r.slice(...)."""
import random, collections, itertools
import vlib, progen as G
from vlib import impl_run, model_run, compare

def N(tier, quick, thorough): return quick if tier == "quick" else thorough

TYPES = lambda: [G.INT, G.INT, G.BOOL, G.LIST(G.INT), G.STR, G.EXC, G.FUN([G.INT], G.INT), G.LIST(G.BOOL), G.BYTES, G.LIST(G.STR)]

def gen_programs(R, n, respell=False):
    g = G.G(R); cases = []; seen = set()
    while len(cases) < n:
        t = R.choice(TYPES())
        ws = G.words(g.gen(t, [], R.randrange(2, 22)))
        text = " ".join(ws)
        if text in seen and R.random() < .9: continue
        seen.add(text); cases.append(dict(text=text, words=ws))
    return cases, g.stats

def nontrivial(text): return len(text.split()) >= 6

def core_programs(r, seed, tier, model_ok, n=None, name="core_programs"):
    """typed random programs (closures returned / passed / applied, negative and computed indices, every callable kind,
    try / throw, strings, bytes, codecs, bitwise): result, error code + spans, stdout, stdin rest and the COMPLETE
    observer event trace must equal the extracted model's."""
    R = random.Random(seed * 7919 + 0xC02)
    cases, stats = gen_programs(R, n or N(tier, 4000, 60000))
    a = impl_run(cases)
    if not model_ok: return
    b = model_run(cases)
    dist, bad = compare(cases, a, b)
    events = sum(len(x.split("\tEV ")[1].split()) for x in a)
    distinct = len({c["text"] for c in cases if nontrivial(c["text"])})
    r.slice(name, len(cases), distinct, [c["text"] for c in cases[:3]], dict(outcomes=dict(dist), generator=dict(stats), events_compared=events),
            "typed program generator (tools/progen.py), one PRNG; distinct = distinct program texts of >= 6 words", bad)
    return cases, a, b

def spec_vs_machine(r, seed, tier, model_ok):
    """the big-step specification (Spec.bs) and the machine agree on outcome, heap size and world, evaluated in the extracted model
    (a run-time cross-check of machine_implements_spec on concrete programs: non-vacuity of its hypotheses)"""
    if not model_ok: return
    R = random.Random(seed * 7919 + 0x5EC)
    cases, _ = gen_programs(R, N(tier, 1500, 20000))
    out = vlib.driver("driver", ["ST\t" + vlib.cps(c["text"]) for c in cases])
    cnt = collections.Counter(out)
    bad = [dict(program=c["text"], impl="(model-internal)", model=o, which=["spec-vs-machine"]) for c, o in zip(cases, out) if o not in ("AGREE", "SKIP")]
    r.slice("spec_vs_machine", len(cases), cnt["AGREE"], [c["text"] for c in cases[:2]], dict(cnt), "Spec.spec_main vs Machine.run_main inside the extracted model; distinct = programs on which both answered and agreed", bad)

# ------------------------------------------------------------------ I/O bind trees (C07)
E = G.enc
class IOGen:
    """action expressions as text.  ctx = binder kinds, innermost last: 'val' (result of a bound action), 'act' (an action passed as an
    argument: SHARED between all its uses), 'skip'.  A use of binder i levels up is  ㄱㅇ<i>."""
    def __init__(s, R): s.R = R; s.leaves = 0; s.shared_uses = 0
    def ref(s, ctx, kind):
        idx = [len(ctx) - 1 - i for i, k in enumerate(ctx) if k == kind]
        return f"ㄱㅇ{E(s.R.choice(idx))}" if idx else None
    def leaf(s, ctx):
        R = s.R; s.leaves += 1
        k = R.choice(["print", "read", "ret", "printx", "retx", "act", "act", "retbad", "printnl"])
        if k == "printnl":      # ㅈㄹ writes its string AND a line feed, whatever the string ends in: texts that contain or end in line feeds (built by decoding bytes)
            from slices_world import st
            return f"({st(R.choice([chr(10), 'a' + chr(10), 'a' + chr(10) + 'b', chr(13) + chr(10), 'bc' + chr(10) + chr(10), '', ' ', 'x' + chr(13)]))} ㅈㄹㅎㄴ)"
        if k == "retbad":      # ㄱㅅ evaluates its argument COMPLETELY when the action is built: a failing part deep inside a container fails there (inside the
            # bound action if that is where the ㄱㅅ stands - so a handler gets it), not later when somebody looks at the part
            x = s.ref(ctx, "val"); bad = R.choice(["(ㄴ ㄱ ㄴㄴㅎㄷ)", "(ㄴ ㄷㅂㅎㄴ ㄷㅈㅎㄴ)"] + ([f"(ㄴ ({x} ㅅㅅㅎㄴ) ㄴㄴㅎㄷ)", f"({x} ㅈㄷㅎㄴ)"] if x else []))
            return R.choice([f"(({bad} ㄱ ㅁㄹㅎㄷ) ㄱㅅㅎㄴ)", f"((ㄴ {bad} ㅅㅈㅎㄷ) ㄱㅅㅎㄴ)", f"((ㄱ ({bad} ㅁㄹㅎㄴ) ㅁㄹㅎㄷ) ㄱㅅㅎㄴ)", f"((ㄱ {bad} ㄷㅂㅎㄷ) ㄱㅅㅎㄴ)"])
        if k == "act":
            a = s.ref(ctx, "act")
            if a: s.shared_uses += 1; return f"({a})"
            k = "read"
        if k in ("printx", "retx"):
            x = s.ref(ctx, "val")
            if x: return f"({x} ㅈㄹㅎㄴ)" if k == "printx" and R.random() < .5 else f"({x} ㄱㅅㅎㄴ)"
            k = "print"
        if k == "print": return f"({E(R.randrange(0, 100))} ㅁㅈㅎㄴ ㅈㄹㅎㄴ)"
        if k == "read": return "(ㄹㅎㄱ)"
        return f"({E(R.randrange(0, 100))} ㄱㅅㅎㄴ)"
    def gen(s, d, ctx):
        R = s.R; c = R.random()
        if d <= 0 or c < .3: return s.leaf(ctx)
        if c < .5:      # (\a. BODY) ACTION : the action value is passed as an argument; BODY may use it 0, 1 or several times
            return f"({s.gen(d - 1, ctx)} ({s.gen(d - 1, ctx + ['act'])} ㅎ) ㅎㄴ)"
        m = s.gen(d - 1, ctx)
        def fun():
            c = R.random()
            if c < .12: return "((ㄱㅇㄱ ㄷㅂㅎㄴ ㄷㅈㅎㄴ) ㅎ)"            # throws instead of producing an action
            if c < .2: return R.choice(["(ㄱ ㅎ)", "(ㄱㅇㄱ ㅎ)", "(ㅂㄱㅎㄱ ㅎ)"])       # returns something that is not an action
            if c < .3: return R.choice(["ㄷㅈ", "ㅈㄹ", "ㄱㅅ", "ㅁㅈ", "(ㄱ ㅁㄹㅎㄴ)", "(ㅈㅈㅎㄱ)", "((ㄱ ㄱㅅㅎㄴ) ㄱ ㅅㅈㅎㄷ)"])       # a bare built-in or a non-function callable as continuation: may fail the moment it is applied
            return f"({s.gen(d - 1, ctx + ['val'])} ㅎ)"
        f = fun()
        if R.random() < .6: return f"({m} {f} ㄱㄹㅎㄷ)"
        return f"({m} {f} {fun()} ㄱㄹㅎㄹ)"
def io_text_closed(R, d):
    g = IOGen(R); t = g.gen(d, []); return t, g.leaves, g.shared_uses

def io_trees(r, seed, tier, model_ok):
    """random bind trees over read / print / return / throwing leaves, with handlers, with actions built and discarded inside pure code,
    and with action VALUES shared between several bind positions (passed as arguments) x random stdin: result, stdout bytes, unread stdin
    and event trace vs the model"""
    R = random.Random(seed * 7919 + 0xC07); n = N(tier, 3000, 60000)
    cases = []; shared = 0
    while len(cases) < n:
        t, leaves, su = io_text_closed(R, R.randrange(1, 6))
        # a line is everything before its line feed: carriage returns, blanks and tabs at its end belong to it; the last line may lack the line feed
        lines = [R.choice(["a", "bc", "", "12", "한글", "x y", "😀", "ab\r", "\r", "a\rb", "c ", "\t", "d\r\r", "\x0b", "e\x0c", "f\x1c", "\x85", "g\u2028"]) for _ in range(R.randrange(0, 5))]
        cases.append(dict(text=t, stdin=lines, leaves=leaves, noeol=bool(lines) and lines[-1] != "" and R.random() < .15)); shared += su > 1
    a = impl_run(cases)
    if not model_ok: return
    b = model_run(cases)
    dist, bad = compare(cases, a, b)
    distinct = len({(c["text"], tuple(c["stdin"])) for c in cases if c["leaves"] >= 2})
    r.slice("io_trees", len(cases), distinct, [dict(program=c["text"], stdin=c["stdin"]) for c in cases[:2]], dict(outcomes=dict(dist), programs_with_a_shared_action_used_twice_or_more=shared),
            "random bind trees depth <= 5 (incl. shared action values) x 0..4 stdin lines; distinct = distinct (program, stdin) with >= 2 leaves", bad)
    if r.pid != "C07": return          # the law oracle belongs to C07 only (other properties reuse the bind trees for their own oracles)
    # implementation-only oracle: monad laws up to observation
    laws = []
    for _ in range(N(tier, 300, 5000)):
        m = io_text_closed(R, 2)[0]; f = "(" + IOGen(R).gen(2, ["val"]) + " ㅎ)"; g = "(" + IOGen(R).gen(2, ["val"]) + " ㅎ)"; v = R.randrange(0, 50)
        lines = [R.choice(["a", "bc", ""]) for _ in range(R.randrange(0, 3))]
        laws.append(("left-identity", f"(({E(v)} ㄱㅅㅎㄴ) {f} ㄱㄹㅎㄷ)", f"({E(v)} {f} ㅎㄴ)", lines))
        laws.append(("right-identity", f"({m} (ㄱㅇㄱ ㄱㅅㅎㄴ ㅎ) ㄱㄹㅎㄷ)", m, lines))
        laws.append(("right-identity-builtin", f"({m} ㄱㅅ ㄱㄹㅎㄷ)", m, lines))
        # the returned value is itself an ACTION: by MonadLaws.return_of_action_runs_it `return act` behaves as `act` (first pair: must hold);
        # the literal law  return act >>= f  ~  f act  (second pair) is the recorded finding F25
        act = R.choice(["(ㄹㅎㄱ)", f"({E(v)} ㅁㅈㅎㄴ ㅈㄹㅎㄴ)", f"({E(v)} ㄱㅅㅎㄴ)", f"((ㄹㅎㄱ) {f} ㄱㄹㅎㄷ)"])
        laws.append(("returned-action-is-run", f"(({act} ㄱㅅㅎㄴ) {f} ㄱㄹㅎㄷ)", f"({act} {f} ㄱㄹㅎㄷ)", lines))
        laws.append(("left-identity-of-action", f"(({act} ㄱㅅㅎㄴ) {f} ㄱㄹㅎㄷ)", f"({act} {f} ㅎㄴ)", lines))
        # associativity: bind (bind m f) g  ~  bind m (\x. bind (f x) g)    (g closed, so no index shift is needed: generated g mentions only its own argument)
        laws.append(("associativity", f"(({m} {f} ㄱㄹㅎㄷ) {g} ㄱㄹㅎㄷ)", f"({m} ((ㄱㅇㄱ {f} ㅎㄴ) {g} ㄱㄹㅎㄷ ㅎ) ㄱㄹㅎㄷ)", lines))
    la = impl_run([dict(text=x[1], stdin=x[3], trace=False) for x in laws]); lb = impl_run([dict(text=x[2], stdin=x[3], trace=False) for x in laws])
    def obs(o):          # result class, stdout, rest  (error spans differ between the two sides of a law by construction)
        f = o.split("\t"); res = f[0].split(" @")[0]; return (res, f[1], f[2])
    lawbad = [dict(program=f"{x[0]}: {x[1]}  ~  {x[2]}", stdin=x[3], impl=f"{obs(p)} vs {obs(q)}", model="(law)", which=["monad-law"]) for x, p, q in zip(laws, la, lb) if obs(p) != obs(q)]
    r.slice("monad_laws", len(laws), len({x[1] for x in laws}), [laws[0][1] + "  ~  " + laws[0][2]], dict(collections.Counter(x[0] for x in laws)),
            "implementation-only oracle: both sides of each monad law give equal (result, stdout, unread stdin)", lawbad)

# ------------------------------------------------------------------ exhaustive small core programs (C02)
def io_retry(r, seed, tier, model_ok):
    """an action VALUE that fails when executed - its continuation hands back one and the same failing delayed expression every time - bound to a
    parameter and executed again by the reject handler of the bind that ran it first, two or three levels deep: every execution repeats the
    action's effects, every failure (the first and the replayed ones) goes to the handler of the bind that ran the action, and the last handler's
    action gives the result"""
    R = random.Random(seed * 7919 + 0xC07 + 5); E = G.enc; cases = []; want = []
    FAILS = ["(ㄴ ㄱ ㄴㄴㅎㄷ ㅁㅈㅎㄴ ㅈㄹㅎㄴ)", "(ㄱ ㅈㄹㅎㄴ)", "(ㄱ ㄷㅂㅎㄴ ㄷㅈㅎㄴ)", "(ㄴ (ㄱ ㅁㅈㅎㄴ) ㄷㅎㄷ ㄱㅅㅎㄴ)", "(ㄹ (ㄴ ㄷ ㅅㅈㅎㄷ) ㅎㄴ)"]
    FIRST = [("(ㄱ ㄱㅅㅎㄴ)", "", 0), ("(ㄴ ㅁㅈㅎㄴ ㅈㄹㅎㄴ)", "1\n", 0), ("(ㄹㅎㄱ)", "", 1)]                # (action, what one execution writes, lines one execution reads)
    CONT = ["(ㄱㅇㄴ ㅎ)", "(ㄱ (ㄱㅇㄴ ㅁㄹㅎㄴ) ㅎㄴ ㅎ)", "(ㄱㅇㄴ (ㄱㅇㄱ ㅎ) ㅎㄴ ㅎ)", "((ㅈㅈㅎㄱ) ((ㄱㅇㄴ) ㄱ ㅁㄹㅎㄷ) ㅎㄷ ㄱ ㄱㅇㄱ ㅎㄴ ㅎ)" if False else "(ㄱㅇㄴ ㄱ (ㅈㅈㅎㄱ) ㅎㄷ ㅎ)"]   # each hands back the SAME delayed expression x
    # continuations that are NOT closures hand back the very element they hold (a closure call builds a new delayed expression each time): a pipe
    # of a one-element list / of a dictionary {0: x} / of a list inside a list - applied to the 0 that the first action yields
    FIRST0 = [("(ㄱ ㄱㅅㅎㄴ)", "", 0), ("((ㄴ ㅁㅈㅎㄴ ㅈㄹㅎㄴ) ((ㄱ ㄱㅅㅎㄴ) ㅎ) ㄱㄹㅎㄷ)", "1\n", 0), ("((ㄹㅎㄱ) ((ㄱ ㄱㅅㅎㄴ) ㅎ) ㄱㄹㅎㄷ)", "", 1)]
    CONT0 = ["((ㄱㅇㄱ ㅁㄹㅎㄴ) ㄴㄱㅎㄴ)", "((ㄱ ㄱㅇㄱ ㅅㅈㅎㄷ) ㄴㄱㅎㄴ)", "((ㄱㅇㄱ ㄴ ㅁㄹㅎㄷ) (ㄱㅇㄱ ㅎ) ㄴㄱㅎㄷ)"]
    for _ in range(N(tier, 300, 4000)):
        x = R.choice(FAILS); levels = R.choice([2, 2, 3]); v = R.randrange(2, 9)
        if R.random() < .5: (act, outp, rd), cont = R.choice(FIRST), R.choice(CONT)
        else: (act, outp, rd), cont = R.choice(FIRST0), R.choice(CONT0)
        inner = f"({act} {cont} ㄱㄹㅎㄷ)"
        # bind3(a, return, \e. bind3(a, return, \e. ... return v)) : the action is a = argument 0 of the function `levels` handlers further out
        def chain(k):      # k handlers still to write; inside handler number j (1-based) the action is argument 0 of the function j levels out
            if k == 0: return f"({E(v)} ㄱㅅㅎㄴ)"
            depth = levels - k      # how many handler functions enclose this bind
            return f"(ㄱㅇ{E(depth)}) ㄱㅅ ({chain(k - 1)} ㅎ) ㄱㄹㅎㄹ"
        prog = f"{x} ({inner} ({chain(levels)} ㅎ) ㅎㄴ ㅎ) ㅎㄴ"
        lines = ["a", "bc", "d", "e"][:R.randrange(0, 5)]
        cases.append(dict(text=prog, stdin=lines)); want.append((f"V {v}", outp * levels, max(0, len(lines) - rd * levels)))
    a = impl_run(cases)
    def obs(o): f = o.split("\t"); return (vlib.decode_v(f[0]).split(" @")[0], "".join(chr(int(c)) for c in f[1][4:].split(",") if c), int(f[2].split()[1]))
    bad = [dict(program=c["text"], stdin=c["stdin"], impl=str(obs(o))[:200], model=f"{w} (result of the last handler, the action's output once per execution, one line read per execution)", which=["retry"])
           for c, o, w in zip(cases, a, want) if obs(o) != w]
    r.slice("io_retry_oracle", len(cases), len({c["text"] for c in cases}), [cases[0]["text"]], dict(programs=len(cases)),
            "a failing action value re-executed by the reject handlers that caught its failure (2-3 levels): result, output and input consumed computed from the shape", bad[:40])
    if model_ok:
        b = model_run(cases); dist, bad2 = compare(cases, a, b)
        r.slice("io_retry_vs_model", len(cases), len({c["text"] for c in cases}), [cases[1]["text"]], dict(outcomes=dict(dist)), "the same programs: result, output, input left and event trace vs the model", bad2)

def small_core(r, seed, tier, model_ok):
    """ALL closed core-calculus programs up to a node budget over the literal alphabet {-1,0,1,2}: literals, fundef, funref, argref, call"""
    budget = N(tier, 6, 7); lits = [-1, 0, 1, 2]
    from functools import lru_cache
    @lru_cache(None)
    def terms(n, depth):
        """list of word-lists of exactly n nodes, under `depth` enclosing functions"""
        out = []
        if n == 1:
            out += [[E(k)] for k in lits]
            if depth > 0: out += [[E(0), "ㅇ"], [E(-1), "ㅇ"]]          # funref 0 (self), funref -1 (outermost)
            if depth > 1: out += [[E(1), "ㅇ"]]                       # funref 1 (the enclosing function)
        if n >= 2:
            for b in terms(n - 1, depth + 1): out.append(b + ["ㅎ"])       # fundef
            if depth > 0:
                for a in terms(n - 1, depth):
                    out.append(a + ["ㅇ" + E(0)])                              # argref a 0
                    if depth > 1: out.append(a + ["ㅇ" + E(1)])                # argument of the enclosing function
        if n >= 2:
            for k in range(0, 3):                                         # call with k args: 1 + f + args
                rest = n - 1
                for split in compositions(rest, k + 1):
                    parts = [terms(s, depth) for s in split]
                    if any(not p for p in parts): continue
                    for combo in itertools.product(*parts):
                        ws = []
                        for a in combo[1:]: ws += a
                        out.append(ws + combo[0] + ["ㅎ" + E(k)])
        return out
    def compositions(n, k):
        if k == 1:
            if n >= 1: yield (n,)
            return
        for i in range(1, n - k + 2):
            for rest in compositions(n - i, k - 1): yield (i,) + rest
    progs = []
    for n in range(1, budget + 1): progs += terms(n, 0)
    R = random.Random(seed)
    cap = N(tier, 40000, 400000)
    if len(progs) > cap: progs = R.sample(progs, cap); exhaustive = False
    else: exhaustive = True
    cases = [dict(text=" ".join(w), tlimit=0.25) for w in progs]
    R.shuffle(cases)                      # spread the diverging programs over the shards
    a = impl_run(cases)
    if not model_ok: return
    b = model_run(cases, tlimit=0.5)
    dist, bad = compare(cases, a, b)
    r.slice("small_core", len(cases), len({c["text"] for c in cases if len(c["text"].split()) >= 3}), [cases[len(cases) // 2]["text"], cases[-1]["text"]], dict(outcomes=dict(dist), node_budget=budget, exhaustive=exhaustive),
            f"every closed core program of <= {budget} nodes over literals {lits} (bounded-exhaustive{'' if exhaustive else ', sampled'}); distinct = texts of >= 3 words", bad)

def reference_ranges(r, seed, tier, model_ok):
    """function and argument references with EVERY nesting index from well below -depth to well above depth - 1, at depths 1..5: an index outside
    -depth .. depth-1 is the out-of-range error (Scope.reference_out_of_range), never another enclosing function; in range, which function / whose
    argument it is follows from the index alone (the expected value is computed here), also through a computed argument position"""
    cases = []; want = []
    def nest(d, body):
        t = body
        for i in range(d): t = f"{E(10 * (i + 1))} ({t} ㅎ) ㅎㄴ"          # level i (0 = innermost) is called with the argument 10 * (i + 1)
        return t
    for d in range(1, 6):
        for m in range(-2 * d - 3, d + 4):
            inr = -d <= m < d; lvl = m if m >= 0 else m + d          # which enclosing function (0 = innermost) the index names
            cmp_ = " ".join(f"({E(m)} ㅇ) ({E(j)} ㅇ) ㄴㅎㄷ" for j in range(d)) + f" ㅁㄹㅎ{E(d)}"
            cases.append(dict(text=nest(d, cmp_))); want.append("V [" + ", ".join(str(j == lvl) for j in range(d)) + "]" if inr else "E 5,-5")
            cases.append(dict(text=nest(d, f"ㄱㅇ{E(m)}"))); want.append(f"V {10 * (lvl + 1)}" if inr else "E 5,-5")
            cases.append(dict(text=nest(d, f"(ㄱ ㄱ ㄷㅎㄷ)ㅇ{E(m)}"))); want.append(f"V {10 * (lvl + 1)}" if inr else "E 5,-5")
            cases.append(dict(text=nest(d, f"(ㄱㅇ{E(m)}) ((ㄱ ㄴㄱ ㄱㅎㄷ) ㅎ) ㅅㄷㅎㄷ"))); want.append(f"V {10 * (lvl + 1)}" if inr else "V 0")          # the failure is an ordinary exception
    a = impl_run(cases)
    bad0 = [dict(program=c["text"], impl=vlib.decode_v(o.split("\t")[0]).split(" @")[0][:120], model=w + " (the nesting index alone decides)", which=["reference-range"])
            for c, o, w in zip(cases, a, want) if vlib.decode_v(o.split("\t")[0]).split(" @")[0] != w]
    r.slice("reference_ranges_oracle", len(cases), len({c["text"] for c in cases}), [cases[0]["text"], cases[-1]["text"]], dict(depths="1..5"),
            "function / argument references (static and computed position) with every nesting index -2d-3 .. d+3 at depths 1..5: out of range = the error, in range = the function / argument the index names", bad0[:40])
    if model_ok:
        b = model_run(cases); dist, bad = compare(cases, a, b)
        r.slice("reference_ranges_vs_model", len(cases), len({c["text"] for c in cases}), [cases[1]["text"]], dict(outcomes=dict(dist)), "the same programs: result and complete event trace vs the model", bad)

def closure_factories(r, seed, tier, model_ok):
    """functions that return functions, 2-4 levels deep, levels of arity 0 / 1 / 2 in every arrangement (a ZERO-argument level in the middle
    included); the innermost body lists arguments of every level.  ONE factory value is applied several times with DIFFERENT arguments per level -
    fully each time, or through a shared partial application - and all results are used, in both orders.  The expected lists are computed
    from the arguments alone (what lexical scoping means), and the programs also go to the model."""
    R = random.Random(seed * 7919 + 0xC02 + 11); E = G.enc; cases = []; want = []; shapes = collections.Counter()
    def lst(xs): return "(" + " ".join(xs) + f" ㅁㄹ ㅎ{E(len(xs))})"
    def apply_levels(f, args_per_level):
        t = f
        for a in args_per_level: t = "(" + " ".join(E(x) for x in a) + (" " if a else "") + f"{t} ㅎ{E(len(a))})"
        return t
    n = N(tier, 600, 12000)
    while len(cases) < n:
        k = R.randrange(2, 5); ar = [R.choice([0, 0, 1, 1, 2]) for _ in range(k)]
        slots = [(j, p) for j in range(k) for p in range(ar[j])]
        if not slots: continue
        refs = [R.choice(slots) for _ in range(R.randrange(1, 4))]
        neg = R.random() < .5            # the nesting index counted from the OUTERMOST function (negative) or from the innermost one: same frame
        body = lst([f"{E(p)}ㅇ{E(-1 - j if neg and R.random() < .8 else k - 1 - j)}" for j, p in refs])
        fac = body
        for _ in range(k): fac = f"({fac} ㅎ)"
        m = R.randrange(2, 5); style = R.choice(["full", "full", "shared-prefix", "reversed"])
        def fresh_args(): return [[R.randrange(-3, 9) for _ in range(a)] for a in ar]
        apps = []; exp = []
        if style == "shared-prefix" and k >= 2:
            cut = R.randrange(1, k); pre = fresh_args()[:cut]
            g = apply_levels("ㄱㅇㄱ", pre)                         # f(pre...) evaluated once in the outer body, bound to g = ㄱㅇㄱ of an inner function
            uses = []
            for _ in range(m):
                rest = fresh_args()[cut:]; uses.append(apply_levels("ㄱㅇㄱ", rest)); full = pre + rest; exp.append([full[j][p] for j, p in refs])
            inner = f"({g} ({lst(uses)} ㅎ) ㅎㄴ)"
            prog = f"{fac} ({inner} ㅎ) ㅎㄴ"
        else:
            for _ in range(m):
                a = fresh_args(); apps.append(apply_levels("ㄱㅇㄱ", a)); exp.append([a[j][p] for j, p in refs])
            prog = f"{fac} ({lst(apps if style != 'reversed' else list(reversed(apps)))} ㅎ) ㅎㄴ"
            if style == "reversed": exp = list(reversed(exp))
        cases.append(dict(text=prog)); want.append("[" + ", ".join("[" + ", ".join(str(x) for x in e) + "]" for e in exp) + "]")
        shapes["".join(str(a) for a in ar) + ":" + style] += 1
    a = impl_run(cases)
    bad0 = [dict(program=c["text"], impl=vlib.decode_v(o.split("\t")[0])[:200], model=f"V {w} (each returned function sees the arguments of the activation that defined it)", which=["lexical-scope"])
            for c, o, w in zip(cases, a, want) if vlib.decode_v(o.split("\t")[0]) != "V " + w]
    r.slice("closure_factories_oracle", len(cases), len({c["text"] for c in cases}), [cases[0]["text"], cases[1]["text"]], dict(shapes=len(shapes), zero_arity_middle=sum(v for s, v in shapes.items() if "0" in s.split(":")[0][1:-1] or (len(s.split(":")[0]) == 2 and "0" in s.split(":")[0]))),
            "functions returning functions (2-4 levels, arities 0-2 in every arrangement) applied 2-4 times with different arguments, fully or through a shared partial application; expected lists computed from the arguments alone", bad0[:40])
    if model_ok:
        b = model_run(cases); dist, bad = compare(cases, a, b)
        r.slice("closure_factories_vs_model", len(cases), len({c["text"] for c in cases}), [cases[2]["text"]], dict(outcomes=dict(dist)), "the same programs: result and complete event trace vs the model", bad)

# ------------------------------------------------------------------ C11 integer kernels against exact rational arithmetic
def int_kernels(r, seed, tier, model_ok):
    import math
    from fractions import Fraction
    R = random.Random(seed * 7919 + 0xC11); n = N(tier, 6000, 150000)
    cases = []; want = []
    def big():
        return R.choice([-1, 1]) * R.getrandbits(R.choice([3, 8, 64, 65, 200, 4096]))
    for _ in range(n):
        k = R.random()
        if k < .4:
            a = big(); d = R.choice([-1, 1]) * (R.getrandbits(R.choice([2, 8, 70, 300])) + 1)
            q = math.trunc(Fraction(a, d)); rem = a - q * d
            cases.append(dict(text=f"[{E(a)} {E(d)} ㄴㄴ ㅎㄷ] [{E(a)} {E(d)} ㄴㅁ ㅎㄷ] ㅁㄹㅎㄷ", trace=False)); want.append(f"[{q}, {rem}]")
        elif k < .6:
            xs = [big() for _ in range(R.randrange(1, 7))]
            cases.append(dict(text=" ".join(E(x) for x in xs) + f" ㄷㅎ{E(len(xs))}", trace=False)); want.append(str(sum(xs)))
        elif k < .8:
            xs = [R.choice([-1, 1]) * R.getrandbits(R.choice([3, 8, 64, 200])) for _ in range(R.randrange(1, 6))]
            cases.append(dict(text=" ".join(E(x) for x in xs) + f" ㄱㅎ{E(len(xs))}", trace=False)); want.append(str(math.prod(xs)))
        elif k < .9:
            b = R.randrange(-50, 50); e = R.randrange(0, 60)
            cases.append(dict(text=f"{E(b)} {E(e)} ㅅㅎㄷ", trace=False)); want.append(str(b ** e))
        else:
            b = big() % 10**12; e = R.randrange(-40, 200); m = R.choice([-1, 1]) * (R.getrandbits(R.choice([4, 16, 64])) + 2)
            if R.random() < .3: b = R.choice([0, 1, -1, 2, b, big()]); e = R.choice([0, 0, 1, -1, 2, e]); m = R.choice([1, -1, 2, -2, 3, m])          # edge values: exponent 0, modulus +-1
            cases.append(dict(text=f"{E(b)} {E(e)} {E(m)} ㅅㅎㄹ", trace=False))
            try: want.append(str(pow(b, e, abs(m))))
            except ValueError: want.append("E 5,-54")
    a = impl_run(cases)
    bad = []
    for c, o, w in zip(cases, a, want):
        got = vlib.decode_v(o.split("\t")[0])
        ok = got == "V " + w or (w.startswith("E ") and got.startswith(w))
        if not ok: bad.append(dict(program=c["text"], impl=got[:200], model="exact: " + w[:200], which=["res"]))
    r.slice("int_kernels_exact", n, len({c["text"] for c in cases}), [cases[0]["text"]], dict(kinds="div/rem 40%, sum 20%, product 20%, power 10%, modular power 10%", bits="3..4096"),
            "implementation against exact integer arithmetic (fractions / pow); distinct = distinct program texts", bad)
    if model_ok:
        b = model_run(cases); dist, bad2 = compare(cases, a, b, fields=("res",))
        r.slice("int_kernels_model", n, len({c["text"] for c in cases}), [cases[1]["text"]], dict(outcomes=dict(dist)), "the same programs, implementation vs extracted model", bad2)

# ------------------------------------------------------------------ C13: at most one evaluation per delayed expression
def _once_one(case):
    """run one program with an observer that counts, per Expr object, the evaluations STARTED WITH AN EMPTY CACHE"""
    import sys, io, signal
    parse, interpret, AS, M = vlib.mods()
    class Rec(interpret.DebuggerBase):
        def __init__(s): s.starts = {}; s.keep = []; s.results = {}; s.events = 0; s.bad_share = []
        def before_eval(s, d, e):
            s.events += 1; s.keep.append(e)
            if e.cache_box.value is None: s.starts[id(e)] = s.starts.get(id(e), 0) + 1
        def after_eval(s, d, e, r):
            s.events += 1
            if id(e) in s.results and s.results[id(e)] is not r: s.bad_share.append(e.expr.metadata.start_col)
            s.results[id(e)] = r
    rec = Rec(); old = sys.stdin, sys.stdout; sys.stdin = io.StringIO(""); sys.stdout = io.StringIO()
    signal.signal(signal.SIGALRM, vlib._alarm); signal.setitimer(signal.ITIMER_REAL, case.get("tlimit", 3.0))
    try:
        try:
            asts = parse.parse("<t>", case["text"])
            interpret.evaluate(M.formatter(AS.Expr(asts[0], AS.Env([], [])), False), debugger=rec); res = "ok"
        except AS.UnsuspectedHangeulError: res = "err"
        except vlib._TO: res = "TIMEOUT"
        except RuntimeError as e: res = "LIMIT" if "Maximum Stack Size" in str(e) else vlib.host_site(e)
        except BaseException as e: res = vlib.host_site(e)
    finally:
        signal.setitimer(signal.ITIMER_REAL, 0); sys.stdin, sys.stdout = old
    multi = sum(1 for v in rec.starts.values() if v > 1)
    return (res, rec.events, len(rec.starts), multi, len(rec.bad_share))

def c13_once(r, seed, tier, model_ok):
    """(a) generated programs: per delayed-expression object at most one evaluation started with an empty cache, and all 'finished'
    events of one object carry the very same result object; (b) doubling / fan-out families d_k = (\\x. x + x)(d_{k-1}), k up to 200:
    the number of observer events must grow LINEARLY in k (call-by-name would need 2^k)"""
    R = random.Random(seed * 7919 + 0xC13)
    cases, stats = gen_programs(R, N(tier, 3000, 50000))
    # a delayed expression that FAILS is shared like one that succeeds: bound to a parameter, needed under several tries, by the handler of the
    # try whose body needed it, inside a returned closure and outside it, through copies of the list that holds it - and once more after the catches
    FAULTS = ["(ㄴ ㄱ ㄴㄴㅎㄷ)", "(ㄴ (ㄱ ㅁㅈㅎㄴ) ㄷㅎㄷ)", "(ㅂ (ㄴ ㄷ ㅁㄹㅎㄷ) ㅎㄴ)", "(ㄹ ㅁ ㄷㅂㅎㄷ ㄷㅈㅎㄴ)", "(ㄹ (ㄴ ㄷ ㅅㅈㅎㄷ) ㅎㄴ)", "((ㄴ ㄱ ㄴㄴㅎㄷ) ㄴ ㄷㅎㄷ)"]
    HS = ["(ㄱㅇㄱ ㅎ)", "(ㄴ ㄱㅇㄱ ㅎㄴ ㅎ)", "(ㅈㅈㄱ ㅎ)", "(ㄱㅇㄱ ㅈㄷㅎㄴ ㅎ)", "(ㄱㅇㄴ ㅎ)"]          # the last one: the handler needs the failed expression AGAIN
    for _ in range(N(tier, 400, 6000)):
        f = R.choice(FAULTS); k = R.randrange(5)
        uses = [f"(ㄱㅇㄱ {R.choice(HS)} ㅅㄷㅎㄷ)" for _ in range(R.randrange(2, 5))]
        if k == 0: t = f"{f} ({' '.join(uses)} ㅁㄹㅎ{G.enc(len(uses))} ㅎ) ㅎㄴ"
        elif k == 1: t = f"{f} ((ㄱㅇㄱ {R.choice(HS)} ㅅㄷㅎㄷ) ((ㄱㅇㄴ (ㄱ ㅎ) ㅅㄷㅎㄷ) ㅎ) ㅎㄴ ㅎ) ㅎㄴ"                 # a closure built after the first catch needs it again
        elif k == 2: t = f"({f} ㄴ ㅁㄹㅎㄷ) ((ㄱ (ㄱㅇㄱ ㄱㅇㄱ ㄷㅎㄷ) ㅎㄴ) (ㄱ ㅎ) ㅅㄷㅎㄷ  (ㄷ (ㄱㅇㄱ ㄱㅇㄱ ㄷㅎㄷ) ㅎㄴ) (ㄴ ㅎ) ㅅㄷㅎㄷ  (ㄱ ㄱㅇㄱ ㅎㄴ) (ㄷ ㅎ) ㅅㄷㅎㄷ ㅁㄹㅎㄹ ㅎ) ㅎㄴ"   # element 0 of l, of l+l (index 0 and 2)
        elif k == 3: t = f"{f} (((ㄱㅇㄱ (ㄱㅇㄴ ㅎ) ㅅㄷㅎㄷ) (ㄱ ㅎ) ㅅㄷㅎㄷ) (ㄱㅇㄱ (ㄴ ㅎ) ㅅㄷㅎㄷ) ㅁㄹㅎㄷ ㅎ) ㅎㄴ"            # handler re-needs it, an outer try catches that, then needed once more
        else: t = f"({f}) ({' '.join(uses)} (ㄱㅇㄱ) ㅁㄹㅎ{G.enc(len(uses) + 1)} ㅎ) ㅎㄴ"                                 # ... and once more outside any try
        cases.append(dict(text=t, words=t.split()))
    out = vlib.pmap(_once_one, cases)
    bad = [dict(program=c["text"], impl=f"{o[3]} delayed expression(s) evaluated more than once from an empty cache; {o[4]} with two different result objects", model="at most once, result shared", which=["once"])
           for c, o in zip(cases, out) if o[3] or o[4]]
    r.slice("once_per_expression", len(cases), len({c["text"] for c in cases if nontrivial(c["text"])}), [cases[0]["text"]],
            dict(outcomes=dict(collections.Counter(o[0].split(" at ")[0] for o in out)), expressions_observed=sum(o[2] for o in out), events=sum(o[1] for o in out)),
            "implementation-side counting observer over generated programs; distinct = distinct texts of >= 6 words", bad[:40])
    fams = {"double-add": lambda k: "ㄴ" + " (ㄱㅇㄱ ㄱㅇㄱ ㄷㅎㄷ ㅎ) ㅎㄴ" * k,
            "double-list": lambda k: "ㄴ" + " (ㄱㅇㄱ ㄱㅇㄱ ㅁㄹㅎㄷ ㅎ) ㅎㄴ" * min(k, 14),
            "fan-out-3": lambda k: "ㄴ" + " (ㄱㅇㄱ ㄱㅇㄱ ㄱㅇㄱ ㄷㅎㄹ ㅎ) ㅎㄴ" * k,
            "shared-in-branches": lambda k: "ㄴ" + " (ㄱㅇㄱ ㄱㅇㄱ ㄱㅇㄱ ㄱㅇㄱ ㄴㅎㄷ ㅎㄷ ㅎ) ㅎㄴ" * k,
            # g = \\x. L[x + x] applied k times to 0 with L = [0]: every level ends by returning an ALREADY evaluated element of the list in tail position
            "element-returned": lambda k: "(ㄱ ㅁㄹㅎㄴ) ((ㄱ" + " ((ㄱㅇㄱ ㄱㅇㄱ ㄷㅎㄷ) ㄱㅇㄴ ㅎㄴ ㅎ) ㅎㄴ" * k + ") ㅎ) ㅎㄴ",
            # the same through a dictionary {0: 0}
            "dict-value-returned": lambda k: "(ㄱ ㄱ ㅅㅈㅎㄷ) ((ㄱ" + " ((ㄱㅇㄱ ㄱㅇㄱ ㄷㅎㄷ) ㄱㅇㄴ ㅎㄴ ㅎ) ㅎㄴ" * k + ") ㅎ) ㅎㄴ",
            # a FAILING expression handed down k levels of  \x. try(x, \_. x) : with failures cached each level does constant work, otherwise 2^k
            "failed-retry": lambda k: "((ㄴ ㄱ ㄴㄴㅎㄷ)" + " ((ㄱㅇㄱ ((ㄱㅇㄴ) ㅎ) ㅅㄷㅎㄷ) ㅎ) ㅎㄴ" * k + ") (ㄱ ㅎ) ㅅㄷㅎㄷ"}
    bad2 = []; meas = {}
    for name, f in fams.items():
        ks = [10, 20, 40, 80, 200] if name not in ("double-list", "failed-retry") else [4, 8, 12, 14, 14] if name == "double-list" else [4, 8, 16, 32, 64]
        ev = [_once_one(dict(text=f(k), tlimit=20)) for k in ks]
        meas[name] = {k: e[1] for k, e in zip(ks, ev)}
        if name == "double-list": continue
        for e, k in zip(ev, ks):
            if e[0] not in ("ok",): bad2.append(dict(program=f"{name} k={k}: {f(k)[:80]}...", impl=e[0], model="completes (work proportional to the number of delayed expressions)", which=["linear"]))
        slope = (ev[1][1] - ev[0][1]) / (ks[1] - ks[0]); pred = ev[0][1] + slope * (ks[-1] - ks[0])
        if ev[-1][0] == "ok" and ev[-1][1] > 1.05 * pred + 10: bad2.append(dict(program=f"{name}: {f(3)}", impl=f"events: {meas[name]}", model=f"linear in k (predicted {pred:.0f} at k={ks[-1]})", which=["linear"]))
    r.slice("sharing_families", sum(len(v) for v in meas.values()), 7 * 5, [fams["double-add"](3)], meas, "doubling / fan-out families: observer events linear in depth k (k up to 200)", bad2)
    if model_ok:
        # the NUMBER of delayed expressions whose evaluation begins: implementation (observer: started with an empty cache) vs Count.trace_main of the
        # model, about which evaluated_at_most_once / work_is_linear are theorems
        allsel = [(c, o) for c, o in zip(cases, out) if o[0] in ("ok", "err")]
        sel = allsel[:N(tier, 1100, 15000)] + allsel[-N(tier, 400, 5000):] + \
              [(dict(text=f(k)), _once_one(dict(text=f(k), tlimit=20))) for f in fams.values() for k in (3, 10, 14, 40)]
        mo = vlib.driver("driver", ["TC\t" + ",".join(str(ord(ch)) for ch in c["text"]) for c, _ in sel])
        badc = [dict(program=c["text"], impl=f"{o[0]}: {o[2]} delayed expressions began evaluation", model=f"Count.trace_main: {m}", which=["evaluation-count"])
                for (c, o), m in zip(sel, mo) if m != "SKIP" and not m.startswith("FUEL") and m != f"{o[0]} {o[2]}"]
        r.slice("evaluation_counts_vs_model", len(sel), len({c["text"] for c, _ in sel}), [sel[0][0]["text"]], dict(compared=sum(1 for m in mo if m != "SKIP" and not m.startswith("FUEL")), skipped=sum(1 for m in mo if m == "SKIP" or m.startswith("FUEL"))),
                "number of delayed expressions whose evaluation begins: counting observer on the implementation vs the instrumented specification semantics (Count.trace_main)", badc[:40])
        mc = [dict(text=f(k)) for f in fams.values() for k in (3, 10, 14)]
        a = impl_run(mc); b = model_run(mc); dist, bad3 = compare(mc, a, b)
        r.slice("sharing_families_vs_model", len(mc), len(mc), [mc[0]["text"]], dict(outcomes=dict(dist)), "the same families, full event trace vs the model", bad3)

# ------------------------------------------------------------------ C19: implementation-side Dyck checker + transparency
def _dyck_one(case):
    """run with a passive observer that checks the event discipline itself, and once more WITHOUT observer to compare every observation"""
    import sys, io, signal
    parse, interpret, AS, M = vlib.mods()
    class Rec(interpret.DebuggerBase):
        def __init__(s): s.stack = []; s.err = None; s.n = 0
        def before_eval(s, d, e):
            s.n += 1
            if s.err is None and d != len(s.stack) + 1: s.err = f"'about to evaluate' #{s.n} at depth {d} with {len(s.stack)} evaluations pending"
            s.stack.append((d, e))
        def after_eval(s, d, e, r):
            s.n += 1
            if s.err is not None: return
            if not s.stack: s.err = f"'finished' event #{s.n} with nothing pending"; return
            d0, e0 = s.stack.pop()
            if e0 is not e or d0 != d: s.err = f"'finished' event #{s.n} (depth {d}) does not match the innermost pending evaluation (depth {d0})"
            if r is None or isinstance(r, AS.Expr): s.err = f"'finished' event #{s.n} carries no strict value / exception"
    def once(rec):
        src = "".join(l + "\n" for l in case.get("stdin", []))
        old = sys.stdin, sys.stdout; sys.stdin = io.StringIO(src); sys.stdout = out = io.StringIO()
        signal.signal(signal.SIGALRM, vlib._alarm); signal.setitimer(signal.ITIMER_REAL, case.get("tlimit", 20.0))
        try:
            try:
                asts = parse.parse("<t>", case["text"])
                res = "V " + interpret.evaluate(M.formatter(AS.Expr(asts[0], AS.Env([], [])), False), debugger=rec)
            except AS.UnsuspectedHangeulError as e: res = "E " + ",".join(str(v.value) if isinstance(v, AS.Integer) else "?" for v in e.err.value) + " @" + ";".join(f"{m.line_no}:{m.start_col}:{m.end_col}" for m in e.err.metadatas)
            except vlib._TO: res = "TIMEOUT"
            except RuntimeError as e: res = "LIMIT" if "Maximum Stack Size" in str(e) else vlib.host_site(e)
            except BaseException as e: res = vlib.host_site(e)
        finally:
            signal.setitimer(signal.ITIMER_REAL, 0); rest = sys.stdin.read(); sys.stdin, sys.stdout = old
        return res, out.getvalue(), rest
    rec = Rec(); with_obs = once(rec); without = once(None)
    problem = rec.err
    if problem is None and with_obs[0][0] in "VE" and rec.stack: problem = f"{len(rec.stack)} 'about to evaluate' event(s) never got a matching 'finished' event; depth ends at {len(rec.stack)} instead of 0"
    if problem is None and "TIMEOUT" not in (with_obs[0], without[0]) and with_obs != without: problem = f"observation differs with the observer attached: {with_obs[0][:60]!r} / {without[0][:60]!r}"
    return problem, rec.n, with_obs[0].split()[0]

def c19_dyck(r, seed, tier, model_ok):
    """implementation-side oracle: a passive observer checks on the fly that depths rise by one per pending evaluation, that every 'finished'
    event closes the innermost pending evaluation of the same expression, that nothing stays pending at a normal end or a language error,
    and that result, exception (with spans), stdout and unread stdin are identical without the observer - on generated pure / throwing / I/O
    programs and on long tail loops (up to 10^4 iterations, > 5000 tail replacements inside one frame)"""
    import slices_faults
    R = random.Random(seed * 7919 + 0xC19)
    cases, _ = gen_programs(R, N(tier, 2500, 40000))
    for _ in range(N(tier, 800, 15000)):
        t, leaves, su = io_text_closed(R, R.randrange(1, 5)); cases.append(dict(text=t, stdin=[R.choice(["a", "", "bc"]) for _ in range(R.randrange(0, 4))]))
    for n in (50, 3000, 10000):
        for name, (t, w) in slices_faults.loops(n).items(): cases.append(dict(text=t, tlimit=120, family=f"{name} N={n}"))
    cases.append(dict(text=slices_faults.nontail(3000), tlimit=60)); cases.append(dict(text=slices_faults.nontail(6000), tlimit=60))
    # ONE delayed expression that fails, bound to a parameter and needed several times - under tries (whose handlers return, measure or re-throw)
    # and outside any try, in a list or a sum, in every order: the cached failure is replayed, and every replay is announced and closed
    FAILS = ["(ㄱ ㄴㄱ ㅅㅎㄷ)", "(ㄴ ㄱ ㄴㄴㅎㄷ)", "(ㄴ ㄷㅂㅎㄴ ㄷㅈㅎㄴ)", "(ㄴ (ㄱ ㅁㅈㅎㄴ) ㄷㅎㄷ)", "(ㄹ (ㄴ ㄷ ㅁㄹㅎㄷ) ㅎㄴ)", "(ㄴ ㄷ ㄷㅎㄷ)"]
    HS = ["(ㄱ ㅎ)", "(ㄱㅇㄱ ㅎ)", "(ㄱㅇㄱ ㅈㄷㅎㄴ ㅎ)", "(ㄱㅇㄱ ㄷㅈㅎㄴ ㅎ)", "(ㄱㅇㄴ ㅎ)"]
    for _ in range(N(tier, 300, 5000)):
        uses = [f"(ㄱㅇㄱ {R.choice(HS)} ㅅㄷㅎㄷ)" for _ in range(R.randrange(1, 4))] + ["ㄱㅇㄱ"] * R.randrange(0, 3); R.shuffle(uses); k = R.random()
        body = " ".join(uses) + (f" ㅁㄹㅎ{G.enc(len(uses))}" if k < .4 else f" ㄷㅎ{G.enc(len(uses))}" if k < .7 else f" ㅁㄹㅎ{G.enc(len(uses))} ㅈㄷㅎㄴ")
        t = f"{R.choice(FAILS)} ({body} ㅎ) ㅎㄴ"
        if R.random() < .3: t = f"({t}) {R.choice(HS[:3])} ㅅㄷㅎㄷ"
        cases.append(dict(text=t, family="shared-failing"))
    out = vlib.pmap(_dyck_one, cases, chunksize=20)
    bad = [dict(program=(c.get("family", "") + " " + c["text"])[:400], stdin=c.get("stdin", []), impl=o[0], model="well-nested events, depth back to zero, same observations as without observer", which=["events"]) for c, o in zip(cases, out) if o[0]]
    r.slice("observer_discipline", len(cases), len({c["text"] for c in cases if nontrivial(c["text"])}), [cases[0]["text"], cases[-3]["text"][:120]],
            dict(outcomes=dict(collections.Counter(o[2] for o in out)), events_checked=sum(o[1] for o in out)),
            "generated programs + I/O trees + tail-loop families up to 10^4 iterations, each run with a checking observer and again without", bad[:40])
