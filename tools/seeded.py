#!/usr/bin/env python3
"""Development-time helper for the seeded changes under /verif/seeded/<id>/ (patch.diff, demo.py, meta.json).
  seeded.py adopt <agent-worktree> <property> <name> "<needs>"   confirm in a fresh scratch worktree (demo passes without, fails with; suite 99/99 with) and store it
  seeded.py run <name> [<property> ...]                          apply to /repo, run the checks (quick), undo; prints caught / MISSED per check
  seeded.py runall                                               every stored change against its own property's check"""
import sys, os, json, subprocess, shutil, time
ROOT = os.path.dirname(os.path.dirname(os.path.abspath(__file__)))
SEEDED = os.path.join(ROOT, "seeded"); REPO = "/repo"; PY = "/venv/bin/python"

def sh(cmd, cwd=None, timeout=3000):
    p = subprocess.run(cmd, cwd=cwd, shell=True, capture_output=True, text=True, timeout=timeout); return p.returncode, p.stdout + p.stderr

def adopt(wt, pid, name, needs):
    src = os.path.join(wt, "_mutation")
    patch = subprocess.run("git diff --binary -- pbhhg_py pbhhg_js", cwd=wt, shell=True, capture_output=True).stdout      # bytes: module.py has CRLF line ends
    assert patch.strip(), "no change in the worktree"
    scratch = f"/tmp/mutv_{name}"
    sh(f"git -C {REPO} worktree remove --force {scratch}"); sh(f"git -C {REPO} worktree add -q --detach {scratch} HEAD")
    try:
        os.makedirs(os.path.join(scratch, "_mutation"), exist_ok=True)
        shutil.copy(os.path.join(src, "demo.py"), os.path.join(scratch, "_mutation", "demo.py"))
        open(os.path.join(scratch, "_mutation", "patch.diff"), "wb").write(patch)
        d0, o0 = sh(f"PYTHONPATH={scratch} {PY} _mutation/demo.py", cwd=scratch, timeout=600)
        a, ao = sh("git apply _mutation/patch.diff", cwd=scratch)
        assert a == 0, "patch does not apply: " + ao
        t, to = sh(f"{PY} -m pytest -q -p no:cacheprovider", cwd=scratch, timeout=900)
        d1, o1 = sh(f"PYTHONPATH={scratch} {PY} _mutation/demo.py", cwd=scratch, timeout=600)
    finally:
        sh(f"git -C {REPO} worktree remove --force {scratch}")
    tail = to.strip().splitlines()[-1] if to.strip() else ""
    ok = d0 == 0 and d1 != 0 and t == 0 and "99 passed" in tail
    print(f"demo without change: exit {d0}; with change: exit {d1}; suite with change: {tail}  => {'CONFIRMED' if ok else 'REJECTED'}")
    if not ok: print(o0[-400:], o1[-400:]); return 1
    dst = os.path.join(SEEDED, name); os.makedirs(dst, exist_ok=True)
    open(os.path.join(dst, "patch.diff"), "wb").write(patch); shutil.copy(os.path.join(src, "demo.py"), os.path.join(dst, "demo.py"))
    if os.path.exists(os.path.join(src, "notes.md")): shutil.copy(os.path.join(src, "notes.md"), os.path.join(dst, "notes.md"))
    json.dump(dict(name=name, breaks_property=pid, needs_to_manifest=needs, author="independent sub-agent given only the property text and a scratch worktree",
                   confirmed=dict(demo_exit_without_change=d0, demo_exit_with_change=d1, test_suite_with_change=tail, demo_output_with_change=o1[-600:]),
                   ran=["git worktree add (fresh, at /repo HEAD)", f"{PY} _mutation/demo.py", "git apply patch.diff", f"{PY} -m pytest -q -p no:cacheprovider", f"{PY} _mutation/demo.py"], checks={}),
              open(os.path.join(dst, "meta.json"), "w"), indent=1, ensure_ascii=False)
    return 0

def run(name, pids):
    """applies the change in a scratch worktree of /repo (never in /repo itself) and points the checks at it through VERIF_REPO"""
    dst = os.path.join(SEEDED, name); meta = json.load(open(os.path.join(dst, "meta.json"))); pids = pids or [meta["breaks_property"]]
    wt = f"/tmp/seedwt_{os.getpid()}"
    sh(f"git -C {REPO} worktree remove --force {wt}"); rc, o = sh(f"git -C {REPO} worktree add -q --detach {wt} HEAD"); assert rc == 0, o
    res = {}
    # the evidence files under /verif/evidence must always come from runs on the UNCHANGED tree: keep them aside meanwhile
    keep = {}
    for pid in pids:
        ev = os.path.join(ROOT, "evidence", f"{pid}.json")
        if os.path.exists(ev): keep[ev] = open(ev, "rb").read()
    try:
        rc, o = sh(f"git apply {dst}/patch.diff", cwd=wt); assert rc == 0, o
        for pid in pids:
            t = time.time(); rc, out = sh(f"VERIF_REPO={wt} ./check {pid} --tier quick", cwd=ROOT, timeout=3000)
            viol = [l for l in out.splitlines() if l.startswith("VIOLATION")]
            res[pid] = dict(exit=rc, violation=viol[0] if viol else None, wall_s=round(time.time() - t, 1))
            print(f"{name} vs {pid}: {'caught' if rc == 1 and viol else 'MISSED'}  ({res[pid]['wall_s']}s) {viol[0] if viol else out.strip().splitlines()[-1:]}")
            if viol:
                rp = viol[0].split("replay=")[1].split()[0]
                try:
                    b = json.load(open(rp)); fi = b.get("failing_inputs", [])
                    res[pid]["first_failing_input"] = {k: (str(v)[:300]) for k, v in (fi[0].items() if fi else [])}; res[pid]["broken"] = b.get("broken_obligations", [])[:3]
                    print("    e.g.", json.dumps(res[pid]["first_failing_input"], ensure_ascii=False)[:500], str(res[pid]["broken"][:1])[:300])
                except Exception as e: print("    (replay unreadable)", e)
    finally:
        sh(f"git -C {REPO} worktree remove --force {wt}")
        for ev, data in keep.items(): open(ev, "wb").write(data)
        # leave the regenerated files and the build as they are for the unchanged tree
        sh(f"{PY} tools/translate.py {REPO} coq/Gen", cwd=ROOT)
    meta.setdefault("checks", {}).update(res); json.dump(meta, open(os.path.join(dst, "meta.json"), "w"), indent=1, ensure_ascii=False)
    return res

if __name__ == "__main__":
    if sys.argv[1] == "adopt": sys.exit(adopt(*sys.argv[2:6]))
    if sys.argv[1] == "run": run(sys.argv[2], sys.argv[3:])
    if sys.argv[1] == "runall":
        for n in sorted(os.listdir(SEEDED)): run(n, [])
