"""Delta-debugging of a failing program on its syntax tree: replace sub-expressions by literals or by their own parts, drop arguments,
shrink literals - keeping the failure (re-checked by the caller's predicate each time).  Used to make the first failing inputs of a
replay file small; it never decides anything (a candidate is kept only if the original oracle still rejects it)."""
import vlib, progen as G

def _tree(a, AS):
    if isinstance(a, AS.Literal): return ["lit", a.value]
    if isinstance(a, AS.FunRef): return ["funref", a.rel]
    if isinstance(a, AS.ArgRef): return ["argref", _tree(a.relA, AS), a.relF]
    if isinstance(a, AS.FunDef): return ["fundef", _tree(a.body, AS)]
    return ["call", _tree(a.fun, AS), [_tree(x, AS) for x in a.argv]]
def _words(t):
    k = t[0]
    if k == "lit": return [G.enc(t[1])]
    if k == "funref": return [G.enc(t[1]), "ㅇ"]
    if k == "argref": return _words(t[1]) + ["ㅇ" + G.enc(t[2])]
    if k == "fundef": return _words(t[1]) + ["ㅎ"]
    out = []
    for x in t[2]: out += _words(x)
    return out + _words(t[1]) + ["ㅎ" + G.enc(len(t[2]))]
def _size(t):
    k = t[0]
    if k in ("lit", "funref"): return 1
    if k == "argref": return 1 + _size(t[1])
    if k == "fundef": return 1 + _size(t[1])
    return 1 + _size(t[1]) + sum(_size(x) for x in t[2])
def _paths(t, p=()):
    yield p
    k = t[0]
    if k in ("argref", "fundef"): yield from _paths(t[1], p + (1,))
    elif k == "call":
        yield from _paths(t[1], p + (1,))
        for i, x in enumerate(t[2]): yield from _paths(x, p + (2, i))
def _get(t, p):
    for i in p: t = t[i]
    return t
def _set(t, p, new):
    if not p: return new
    t = list(t); t[p[0]] = _set(t[p[0]], p[1:], new) if len(p) > 1 else new
    if len(p) > 1 and isinstance(t[p[0]], tuple): t[p[0]] = list(t[p[0]])
    return t
def _candidates(t):
    for p in sorted(_paths(t), key=lambda p: -_size(_get(t, p))):        # biggest sub-expressions first
        n = _get(t, p); k = n[0]
        if k == "lit":
            if n[1] not in (0, 1): yield _set(t, p, ["lit", 0]); yield _set(t, p, ["lit", 1]); yield _set(t, p, ["lit", n[1] // 2])
            continue
        yield _set(t, p, ["lit", 0]); yield _set(t, p, ["lit", 1])
        if k in ("argref", "fundef"): yield _set(t, p, n[1])
        if k == "call":
            yield _set(t, p, n[1])
            for x in n[2]: yield _set(t, p, x)
            for i in range(len(n[2])): yield _set(t, p, ["call", n[1], n[2][:i] + n[2][i + 1:]])

def shrink_program(text, still_fails, budget=150):
    """text: a one-expression program.  still_fails(text) -> bool.  Returns a (possibly) smaller failing program text."""
    parse, _, AS, _ = vlib.mods()
    try:
        asts = parse.parse("<t>", text)
        if len(asts) != 1: return text
        t = _tree(asts[0], AS)
        if not still_fails(" ".join(_words(t))): return text          # the canonical re-spelling must fail too, otherwise leave the input alone
    except BaseException: return text
    spent = 1; progress = True
    while progress and spent < budget:
        progress = False
        for c in _candidates(t):
            if spent >= budget: break
            if _size(c) >= _size(t) and c != t and not (c[0] == "lit"): continue
            try: txt = " ".join(_words(c))
            except BaseException: continue
            spent += 1
            if still_fails(txt): t = c; progress = True; break
    return " ".join(_words(t))
