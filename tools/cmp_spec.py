import sys, random, subprocess, collections
sys.path.insert(0, '/repo'); sys.path.insert(0, '/tmp/genprobe'); sys.path.insert(0,'/tmp/dev')
from pbhhg_py import parse, abstract_syntax as AS
import gen as Gm
def ser(a):
    m = a.metadata; sp = f"{m.line_no} {m.start_col} {m.end_col}"
    if isinstance(a, AS.Literal): return f"L {a.value} {sp}"
    if isinstance(a, AS.FunRef): return f"R {a.rel} {sp}"
    if isinstance(a, AS.ArgRef): return f"A {ser(a.relA)} {a.relF} {sp}"
    if isinstance(a, AS.FunDef): return f"D {ser(a.body)} {sp}"
    return f"C {ser(a.fun)} {len(a.argv)} " + " ".join(ser(x) for x in a.argv) + f" {sp}"
R = random.Random(int(sys.argv[1])); g = Gm.G(R); progs = []
while len(progs) < int(sys.argv[2]):
    t = R.choice([Gm.INT, Gm.BOOL, Gm.LIST(Gm.INT), Gm.STR, Gm.EXC, Gm.FUN([Gm.INT], Gm.INT), Gm.LIST(Gm.BOOL)])
    text = " ".join(Gm.words(g.gen(t, [], R.randrange(2, 22))))
    a = parse.parse("<t>", text)
    if len(a) == 1: progs.append((text, ser(a[0])))
out = subprocess.run(["/tmp/dev2/driver2"], input="".join("-\t" + s + "\n" for _, s in progs), capture_output=True, text=True).stdout.split("\n")[:-1]
c = collections.Counter(out); print(dict(c))
for (t, _), o in zip(progs, out):
    if o == "DIFFER": print(t); break
