#!/bin/sh
# runs every quick check on the unchanged tree (refreshes evidence/*.json); prints one line per property
cd "$(dirname "$0")/.." || exit 1
fail=0
for p in C01 C02 C03 C04 C05 C06 C07 C08 C09 C10 C11 C12 C13 C14 C15 C16 C17 C18 C19 C20; do
  s=$(date +%s); out=$(./check $p --tier "${1:-quick}" 2>&1); rc=$?; e=$(date +%s)
  echo "$p rc=$rc $((e-s))s $(echo "$out" | grep -c KNOWN-FINDING) known $(echo "$out" | grep VIOLATION | head -1)"
  [ $rc -ne 0 ] && fail=1
done
exit $fail
