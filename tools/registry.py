"""property id -> what its check compiles and runs.
needs  : coq/src modules whose .vo must build for this property (proof files + what the Prop file imports)
gen    : coq/Gen modules whose regeneration the property depends on (a translator failure there is this property's problem)
slices : (python module, function) correspondence slices / oracles
search : optional directed search run when an obligation broke and no slice produced a concrete failing input"""
CORE = ["Base", "Strings", "Num", "Builtins", "Interp", "Machine", "Spec"]
REFINE = CORE + ["HeapFacts", "Refine1", "Refine2", "Refine3", "Refine4"]
PROPS = {
 "C02": dict(needs=REFINE + ["FuelMono", "LinkStack", "Scope", "RunG", "SeqProofs", "CallRules", "LinkKinds"], gen=["GenStack", "GenKinds"], slices=[("slices_core", "reference_ranges"), ("slices_core", "core_programs"), ("slices_core", "small_core"), ("slices_core", "closure_factories"), ("slices_values", "c02_callables"), ("slices_values", "c02_function_values"), ("slices_core", "spec_vs_machine")]),
 "C03": dict(needs=REFINE + ["RelA", "RelB", "RelC", "RunG", "ShortCircuit", "DictLazy", "DictLink", "SeqProofs", "CallRules"], gen=[], slices=[("slices_lazy", "c03_bombs"), ("slices_core", "core_programs")]),
 "C05": dict(needs=REFINE + ["LinkStack", "Progress", "RunG", "FuelMono", "Float", "Arith", "Loops", "Loops2", "SeqProofs", "CallRules"], gen=["GenStack"], slices=[("slices_faults", "c05_ladders"), ("slices_core", "core_programs")]),
 "C07": dict(needs=REFINE + ["RunG", "Pure", "Eq", "Deep", "IOSpec", "MonadLaws"], gen=[], slices=[("slices_world", "main_many"), ("slices_core", "io_trees"), ("slices_core", "io_retry"), ("slices_faults", "io_device_faults"), ("slices_values", "shared_action_containers")]),
 "C10": dict(needs=REFINE + ["RunG", "Exc", "Deep", "LinkErr"], gen=["GenErr"], slices=[("slices_lazy", "c10_faults"), ("slices_lazy", "c10_import_faults"), ("slices_core", "core_programs")]),
 "C11": dict(needs=CORE + ["Float", "Arith", "LinkArith", "Eq", "Complex", "LinkKinds", "HeapFacts", "Refine1", "Refine2", "RunG", "Order", "PowBool", "Numerals"], gen=["GenArith", "GenKinds"], slices=[("slices_core", "int_kernels"), ("slices_values", "c11_tower"), ("slices_values", "c11_numerals")]),
 "C19": dict(needs=CORE + ["Events", "EventsMatch"], gen=[], slices=[("slices_core", "c19_dyck"), ("slices_core", "core_programs"), ("slices_core", "io_trees")]),
 "C01": dict(search=("slices_text", "c01_witness"), needs=["Base", "Num", "Lex", "Jamo", "SpecC01", "Skeleton"], gen=["GenParse", "GenTS"], slices=[("slices_text", "c01_exhaustive"), ("slices_text", "c01_model_points"), ("slices_text", "c01_respell")]),
 "C08": dict(needs=["Base", "Num", "NumProofs", "Lex", "ParseProofs", "PadToken", "Strings", "Builtins", "Interp", "LinkNames", "ImpSearch"], gen=["GenParse", "GenNames", "GenIO"], slices=[("slices_text", "c08_codec"), ("slices_text", "c08_spellings"), ("slices_world", "c15_search")]),
 "C09": dict(needs=["Base", "Num", "NumProofs", "Lex", "ParseProofs", "ParseRules"], gen=["GenParse"], slices=[("slices_text", "c09_parse")]),
 "C14": dict(needs=REFINE + ["Files", "FilesProofs", "FilesTotal", "LinkNames", "RunG", "IOSpec", "FileIO"], gen=["GenIO"], slices=[("slices_world", "c14_histories"), ("slices_world", "c14_total_histories"), ("slices_world", "c14_in_model"), ("slices_world", "c14_faults")]),
 "C15": dict(needs=REFINE + ["ImpSearch", "ImportProofs", "ImpLoad", "ModFS", "ModFSProofs", "RunG", "ImportMain", "ImportDisk", "Pure"], gen=[], slices=[("slices_world", "c15_search"), ("slices_world", "c15_semantics"), ("slices_world", "c15_in_model")]),
 "C06": dict(needs=CORE + ["Float", "Eq", "Complex", "HeapFacts", "Refine1", "Refine2", "RunG", "Order", "EqLink", "DictLink"], gen=[], slices=[("slices_values", "c06_eq")]),
 "C12": dict(needs=REFINE + ["SeqProofs", "SliceReal", "SliceContig", "RunG", "SeqSpec", "SeqLink"], gen=[], slices=[("slices_values", "c12_seq")]),
 "C16": dict(needs=CORE + ["HeapFacts", "Refine1", "Refine2", "RunG", "Codec", "Bits", "Utf", "Utf16", "StrCodec"], gen=[], slices=[("slices_values", "c16_codecs")]),
 "C17": dict(needs=CORE + ["HeapFacts", "Refine1", "Refine2", "RunG", "Codec", "Bits", "LinkBits", "Float", "RoundProofs", "RoundLink"], gen=["GenBitwise"], slices=[("slices_values", "c17_bits")]),
 "C18": dict(needs=CORE + ["FloatText", "FloatTextProofs", "RealText", "PrintSeq", "PrintInt", "PrintDict", "HeapFacts", "Refine1", "Refine2", "RunG", "Pure", "IOSpec", "Cli"], gen=[], slices=[("slices_values", "c18_print"), ("slices_values", "c18_cli")]),
 "C13": dict(needs=REFINE + ["RunG", "Exc", "Once", "CountDef", "Count"], gen=[], slices=[("slices_core", "c13_once"), ("slices_core", "core_programs")]),
 "C04": dict(needs=CORE + ["Events", "Progress", "NumProofs", "Lex", "ParseProofs", "LinkErr", "LinkKinds", "LinkExcept", "Spec", "HeapFacts", "RunG", "Exc"], gen=["GenErr", "GenParse", "GenKinds"], slices=[("slices_faults", "c04_sweep"), ("slices_faults", "io_device_faults"), ("slices_faults", "nesting_ladders"), ("slices_world", "c14_faults"), ("slices_world", "c15_semantics"), ("slices_text", "c09_parse"), ("slices_core", "core_programs")]),
 "C20": dict(needs=CORE + ["FuelMono", "Isolation", "ManySeq"], gen=["GenNondet"], slices=[("slices_world", "main_many"), ("slices_world", "c20_isolation"), ("slices_world", "c15_semantics")]),
}
