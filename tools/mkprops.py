#!/usr/bin/env python3
"""Development-time helper (not run by the checks): writes coq/Props/Prop_<id>.v from the table below.
Each property file restates the chosen theorems VERBATIM (statement text copied from the proof file), closes each by
`exact <the lemma>` and prints its assumptions, so the statement a property rests on is visible in one place and cannot be
weakened quietly: editing the statement in the proof file without editing it here makes the `exact` fail."""
import re, os, sys
ROOT = os.path.dirname(os.path.dirname(os.path.abspath(__file__)))
SRC = os.path.join(ROOT, "coq", "src")

def header(mod, name):
    txt = re.sub(r"\(\*.*?\*\)", "", open(os.path.join(SRC, mod + ".v"), encoding="utf-8").read(), flags=re.S)
    m = re.search(r"^(Theorem|Corollary|Lemma)\s+" + re.escape(name) + r"\b(.*?)(?:\.\s*\n?\s*Proof\b|\.\s+Proof\b)", txt, re.S | re.M)
    if not m: raise SystemExit(f"cannot find {mod}.{name}")
    return m.group(2).strip()

def split_binders(h):
    """header text after the name: '<binders> : <statement>' -> (binders, statement, explicit names)"""
    depth = 0
    for i, c in enumerate(h):
        if c in "({[": depth += 1
        elif c in ")}]": depth -= 1
        elif c == ":" and depth == 0 and not h.startswith(":=", i):
            binders, stmt = h[:i].strip(), h[i + 1:].strip(); break
    else: raise SystemExit("no colon in " + h[:80])
    names = []
    for g in re.finditer(r"\(([^()]*)\)|\{([^{}]*)\}|(\S+)", binders):
        if g.group(1) is not None: names += g.group(1).split(":")[0].split()
        elif g.group(3) is not None: names.append(g.group(3))
    return binders, stmt, names

def requires(mod):
    txt = open(os.path.join(SRC, mod + ".v"), encoding="utf-8").read()
    coq = []; loc = []
    for m in re.finditer(r"^From Coq Require Import ([^.]*)\.", txt, re.M): coq += m.group(1).split()
    for m in re.finditer(r"^Require Import ([^.]*)\.", txt, re.M): loc += m.group(1).split()
    return coq, loc

def emit(pid, title, imports, items, extra=""):
    coq = ["ZArith", "NArith", "List", "Bool", "Lia", "Permutation"]; loc = []
    for it in items:
        if isinstance(it, str): continue
        c, l = requires(it[0])
        for x in c:
            if x not in coq: coq.append(x)
        for x in l + [it[0]]:
            if x not in loc: loc.append(x)
    for x in imports:
        if x not in loc: loc.append(x)
    imports = loc
    out = [f"(* Property {pid}: {title}", "   ONLY statements: each theorem is closed by `exact` of a lemma proved elsewhere and followed by Print Assumptions. *)",
           f"From Coq Require Import {' '.join(coq)}.", "Import ListNotations.", f"Require Import {' '.join(imports)}.", extra]
    for it in items:
        if isinstance(it, str): out.append(it); continue
        mod, name = it[0], it[1]; comment = it[2] if len(it) > 2 else ""; pre = it[3] if len(it) > 3 else ""
        b, stmt, names = split_binders(header(mod, name))
        if pre:
            b = pre + " " + b; names = [x for g in re.findall(r"\(([^():]*):", pre) for x in g.split()] + names
        for k, v in (it[4] if len(it) > 4 else {}).items(): stmt = re.sub(r"\b" + k + r"\b", v, stmt); b = re.sub(r"\b" + k + r"\b", v, b)
        if comment: out.append(f"(* {comment} *)")
        out.append(f"Theorem {name} {b} :\n  {stmt}.")
        out.append(f"Proof. exact ({mod}.{name} {' '.join(names)}). Qed.")
        out.append(f"Print Assumptions {name}.\n")
    open(os.path.join(ROOT, "coq", "Props", f"Prop_{pid}.v"), "w", encoding="utf-8").write("\n".join(x for x in out if x is not None) + "\n")

if __name__ == "__main__":
    import props_table
    for p in props_table.TABLE:
        if len(sys.argv) > 1 and p["pid"] not in sys.argv[1:]: continue
        emit(p["pid"], p["title"], p["imports"], p["items"], p.get("extra", ""))
        print("wrote", p["pid"])
