"""Value-level slices: equality / dictionaries (C06), numeric tower (C11), sequences (C12), byte codecs (C16), bitwise + roundings (C17),
printing (C18)."""
import random, collections, math, itertools, re, sys, os, io, subprocess
from fractions import Fraction
import vlib, progen as G
from vlib import impl_run, model_run, compare, mods, decode_v
from slices_core import N
E = G.enc
def call(f, args): return (" ".join(args) + " " if args else "") + f + "ㅎ" + E(len(args))
def res(o): return decode_v(o.split("\t")[0])
def NZ(t): return re.sub(r"(?<![\w.])-0\.0(?![\w.])", "0.0", t)          # a printed negative zero read as zero

# ------------------------------------------------------------------ C06
MP = 2**61 - 1
def norm_dicts(s):
    """sort the entries of every {...} (the two sides may order / spell double keys differently)"""
    def parse(i, close):
        parts = [""]
        while i < len(s) and s[i] != close:
            c = s[i]
            if c == "{": sub, i = parse(i + 1, "}"); parts[-1] += "{" + ", ".join(sorted(sub)) + "}"; continue
            if c in "[<(":
                cl = {"[": "]", "<": ">", "(": ")"}[c]; sub, i = parse(i + 1, cl); parts[-1] += c + ", ".join(sub) + cl; continue
            if c == "'":
                j = s.index("'", i + 1); parts[-1] += s[i:j + 1]; i = j + 1; continue
            if s.startswith(", ", i): parts.append(""); i += 2; continue
            parts[-1] += c; i += 1
        return parts, i + 1
    try: parts, _ = parse(0, "\0"); return ", ".join(parts)
    except Exception: return s

FUN_KINDS = ["closure", "closure", "pipe", "collect", "spread", "codec", "module"]
class EqGen:
    """values as trees (so that a value can be PERTURBED at one numeric leaf into a host-hash-colliding partner), rendered to program text"""
    def __init__(s, R): s.R = R
    def integer(s):
        R = s.R; k = R.random(); base = R.choice([0, 1, -1, -2, 2, 5, 2**53, 2**53 + 1, 2**60, 7, 2**40, 10**9, 2**31])
        if k < .4: return base
        if k < .7: return base + R.choice([1, -1, 2]) * MP
        if k < .8: return R.choice([-1, -2])
        return R.randrange(-5, 6)
    def dyadic(s):
        """a NON-integral real m / 2^k, exactly representable: small ones (0.5, -1.5) and large ones whose fraction is tiny relative to the value
        (2^40 + 0.5: anything that compares reals through a tolerance, or through their printed / truncated form, merges it with 2^40)"""
        R = s.R; k = R.randrange(1, 4); c = R.random()
        if c < .3: return ("dy", R.choice([1, -1, 3, -3, 5]), k)
        big = R.choice([2**31, 2**40, 2**45, 2**49, 10**9, 10**12, 3 * 2**38]); m = big * 2**k + R.choice([1, -1, 2**k - 1])
        return ("dy", R.choice([1, -1]) * m, k)
    def real_t(s):
        R = s.R; k = R.random()
        if k < .4: return ("int", R.choice([0, 0, 1, -1, 2, 7, 2**53, 2**53 + 1, 2**60]))
        if k < .8: return ("float", R.choice([0, 0, 1, -1, 2, 2**53, 2**60]))
        if k < .9: return s.dyadic()
        return ("inf",)
    def cplx(s):
        """complex(real part, imaginary part) of two reals: imaginary part 0 makes it equal to the real, any other does not"""
        return ("cx", s.real_t(), s.real_t())
    def atom_t(s):
        R = s.R; k = R.random()
        if k < .35: return ("int", s.integer())
        if k < .47: return ("float", R.choice([0, 1, -1, 2, 2**53, 2**53 + 1, 2**60, 2**61 - 1, R.randrange(-5, 6)]))
        if k < .51: return s.dyadic()
        if k < .55: return s.cplx()
        if k < .60: return ("inf",)
        if k < .70: return ("bool", R.random() < .5)
        if k < .82: return ("str", R.randrange(-3, 4))
        if k < .86: return ("nil",)
        if k < .93: return ("io", R.choice(["ret", "print", "read", "bind2", "bind3", "bind3b"]), R.randrange(0, 3))
        if k < .97: return ("fun", R.choice(FUN_KINDS), R.randrange(0, 3))
        return ("int", R.randrange(-2, 3))
    def val_t(s, d):
        R = s.R; k = R.random()
        if d <= 0 or k < .5: return s.atom_t()
        if k < .7: return ("list", [s.val_t(d - 1) for _ in range(R.randrange(0, 4))])
        if k < .8: return ("exc", [s.val_t(d - 1) for _ in range(R.randrange(0, 3))])
        return s.dic_t(d - 1)
    def dic_t(s, d): return ("dict", [(s.key_t(d), s.val_t(d)) for _ in range(s.R.randrange(0, 4))])
    def key_t(s, d): return s.atom_t() if s.R.random() < .8 else s.val_t(d)
    def render(s, t):
        k = t[0]
        if k == "int": return E(t[1])
        if k == "float": return call("ㅅㅅ", [E(t[1])])
        if k == "dy": return call("ㄱ", [call("ㅅㅅ", [E(t[1])]), call("ㅅ", [call("ㅅㅅ", [E(2)]), E(-t[2])])])      # m * 2.0 ** -k, exact
        if k == "inf": return call("ㅂ", ["ㅂ", "ㅅ", "ㅁ"])
        if k == "cx": return call("ㅂㅅ", [s.render(t[1]), s.render(t[2])])
        if k == "bool": return call("ㅈㅈ" if t[1] else "ㄱㅈ", [])
        if k == "str": return call("ㅁㅈ", [E(t[1])]) if t[1] != -9 else "(ㅁㅈㅎㄱ)"
        if k == "nil": return call("ㅂㄱ", [])
        if k == "io":      # action values compare by content: kind + arguments (for ㄱㄹ: the bound action, the continuation AND the handler)
            n = E(t[2])
            return {"ret": f"({n} ㄱㅅㅎㄴ)", "print": f"({n} ㅁㅈㅎㄴ ㅈㄹㅎㄴ)", "read": "(ㄹㅎㄱ)", "bind2": f"(({n} ㄱㅅㅎㄴ) ㄱㅅ ㄱㄹㅎㄷ)",
                    "bind3": f"(({n} ㄱㅅㅎㄴ) ㄱㅅ ㄱㅅ ㄱㄹㅎㄹ)", "bind3b": f"(({n} ㄱㅅㅎㄴ) ㄱㅅ ㅈㄹ ㄱㄹㅎㄹ)"}[t[1]]
        if k == "fun":     # functions compare by IDENTITY whatever their kind: two evaluations of one text give two different functions (a built-in
            n = E(t[2])    # module's entry is the one object in the module's table), and functions of different kinds never coincide
            return {"closure": f"({n} ㅎ)", "pipe": f"(({n} ㅎ) (ㄱㅇㄱ ㅎ) ㄴㄱㅎㄷ)", "collect": f"(({n} ㅎ) ㅁㅂㅎㄴ)", "spread": f"(({n} ㅎ) ㅂㅂㅎㄴ)",
                    "codec": f"(ㄴ {n} ㅂ ㅂ ㅂㅎㄷ ㅎㄷ)", "module": f"(ㅂ ㅂㄷ {'ㄱㄷㅂ'[t[2]]} ㅂㅎㄹ)"}[t[1]]
        if k == "list": return call("ㅁㄹ", [s.render(x) for x in t[1]])
        if k == "exc": return call("ㄷㅂ", [s.render(x) for x in t[1]])
        return call("ㅅㅈ", [y for kv in t[1] for y in (s.render(kv[0]), s.render(kv[1]))])
    def perturb(s, t):
        """one numeric leaf replaced by a partner that is DIFFERENT but whose host hash collides (or by the equal number of the other kind)"""
        R = s.R; k = t[0]
        if R.random() < .2:          # KIND swap with the contents kept: the pair must stay unequal (different kinds never compare equal)
            if k == "list": return ("exc", t[1])
            if k == "exc": return ("list", t[1])
            if k == "bool": return ("int", 1 if t[1] else 0) if R.random() < .6 else ("float", 1 if t[1] else 0)
            if k == "int" and t[1] in (0, 1) and R.random() < .5: return ("bool", t[1] == 1)
            if k == "nil": return R.choice([("list", []), ("exc", []), ("dict", []), ("str", -9), ("int", 0), ("bool", False)])
            if k == "dict" and not t[1]: return R.choice([("list", []), ("exc", []), ("nil",)])
            if k == "str": return ("int", t[1]) if R.random() < .5 else ("list", [("str", t[1])])
        if k == "cx":      # the real it equals when the imaginary part is zero; otherwise a partner with one part changed or the parts swapped
            c = R.random(); zero_im = t[2] in (("int", 0), ("float", 0))
            if c < .35: return t[1] if zero_im or R.random() < .5 else ("cx", t[1], ("int", 0))
            if c < .55: return ("cx", t[2], t[1])
            if c < .8: return ("cx", s.perturb(t[1]) if t[1][0] in ("int", "float", "dy") else t[1], t[2])
            return ("cx", t[1], s.perturb(t[2]) if t[2][0] in ("int", "float", "dy") else ("int", 1))
        if k in ("int", "float") and R.random() < .12: return ("cx", t, ("int", 0) if R.random() < .6 else ("float", R.choice([0, 1])))
        if k == "dy":      # the integer / integral real next to it, or another real with the same integer part: all DIFFERENT from it
            m, j = t[1], t[2]; c = R.random(); fl = m // 2**j
            if c < .3: return ("int", fl + R.choice([0, 1]))
            if c < .6: return ("float", fl + R.choice([0, 1]))
            if c < .8: return ("dy", m + R.choice([1, -1]), j) if j > 1 or abs(m) > 4 else ("dy", 2 * m + 1, j + 1)
            return ("dy", -m, j)
        if k in ("int", "float") and abs(t[1]) >= 2**31 and abs(t[1]) < 2**49 and R.random() < .3:
            return ("dy", t[1] * 2 + R.choice([1, -1]), 1)
        if k in ("int", "float"):
            n = t[1]; c = R.random()
            if c < .35: return (k, n + R.choice([1, -1, 2, -2]) * MP)
            if c < .5 and n in (-1, -2): return (k, -3 - n)
            if c < .7: return ("float" if k == "int" else "int", n)          # numerically equal across the tower (when exactly representable)
            if c < .85: return (k, n + 1)
            return (k, n * 2**61 if n else 2**61 - 1)
        if k == "fun": return ("fun", R.choice(FUN_KINDS), t[2])
        if k == "io": return ("io", R.choice(["ret", "print", "read", "bind2", "bind3", "bind3b"]), t[2]) if R.random() < .7 else ("io", t[1], (t[2] + 1) % 3)
        if k in ("list", "exc") and t[1]:
            i = R.randrange(len(t[1])); return (k, [s.perturb(x) if j == i else x for j, x in enumerate(t[1])])
        if k == "dict" and t[1]:
            i = R.randrange(len(t[1])); side = R.random() < .5
            return (k, [((s.perturb(a) if side else a), (b if side else s.perturb(b))) if j == i else (a, b) for j, (a, b) in enumerate(t[1])])
        return t
    def atom(s): return s.render(s.atom_t())
    def val(s, d): return s.render(s.val_t(d))
    def dic(s, d): return s.render(s.dic_t(d))
    def key(s, d): return s.render(s.key_t(d))
    def prog(s):
        R = s.R; k = R.random(); d = R.randrange(0, 3)
        if k < .35:
            at = s.val_t(d); c = R.random(); bt = at if c < .2 else s.perturb(at) if c < .6 else s.val_t(d)
            a, b = s.render(at), s.render(bt)
            if R.random() < .08: a = call("ㅂ", ["ㅂ", "ㅅ", "ㄴ"])       # NaN only as a top-level operand
            return call("ㄴ", [a, b]), "eq"
        if k < .40: at = s.val_t(d); return call("ㄴ", [s.render(at), s.render(s.perturb(at)), s.render(at)]), "eq3"
        if k < .43:
            # a Boolean INSIDE a container against the numerically equal number (True / 1 / 1.0 / 1+0i, False / 0 / -0.0) at the same position: different
            # kinds differ at every depth - as operands of ㄴ, as keys built, looked up and merged
            b = R.random() < .5; num = R.choice([("int", 1 if b else 0), ("float", 1 if b else 0), ("cx", ("int", 1 if b else 0), ("int", 0))])
            wrapk = R.choice(["list", "list", "exc", "list2", "dictval"])
            def wr(t): return ("list", [t]) if wrapk == "list" else ("exc", [t]) if wrapk == "exc" else ("list", [("list", [("int", 7), t])]) if wrapk == "list2" else ("dict", [(("int", 3), t)])
            A_, B_ = s.render(wr(("bool", b))), s.render(wr(num)); c = R.random()
            if c < .4: return call("ㄴ", [A_, B_] if R.random() < .5 else [B_, A_]), "eq-bool-vs-number-nested"
            if c < .7: return f"{A_} {call('ㅅㅈ', [B_, E(2)])} ㅎㄴ", "lookup-bool-vs-number-nested"
            if c < .85: return call("ㅅㅈ", [B_, E(2), A_, E(3)]), "dict-bool-vs-number-nested"
            return f"{A_} {call('ㄷ', [call('ㅅㅈ', [B_, E(2)]), call('ㅅㅈ', [A_, E(3)])])} ㅎㄴ", "merge-bool-vs-number-nested"
        if k < .45:
            # ONE evaluated value used for two or three operands (x -> x = x): equality is by VALUE, not by identity - a number with a NaN part (a
            # real NaN, a complex number whose real or imaginary part is NaN) differs from itself even as the same object; every other value equals itself
            NAN = call("ㅂ", ["ㅂ", "ㅅ", "ㄴ"]); c = R.random()
            x = NAN if c < .2 else call("ㅂㅅ", [NAN, s.render(s.real_t())]) if c < .4 else call("ㅂㅅ", [s.render(s.real_t()), NAN]) if c < .6 else call("ㅂㅅ", [NAN, NAN]) if c < .65 else s.render(s.atom_t() if R.random() < .6 else s.cplx())
            ops = " ".join(["ㄱㅇㄱ"] * R.choice([2, 2, 3]))
            return f"{x} (({ops} ㄴㅎ{E(len(ops.split()))}) ㅎ) ㅎㄴ", "eq-shared-operand"
        if k < .75:
            dt = s.dic_t(d); kt = s.key_t(1)
            if dt[1] and R.random() < .6: kt = R.choice(dt[1])[0]; kt = s.perturb(kt) if R.random() < .5 else kt
            return s.render(kt) + " " + s.render(dt) + " ㅎㄴ", "lookup"
        if k < .9:
            d1, d2 = s.dic_t(d), s.dic_t(d); kt = s.key_t(1)
            if d1[1] and R.random() < .6: kt = R.choice(d1[1])[0]; kt = s.perturb(kt) if R.random() < .5 else kt
            if d1[1] and R.random() < .4: d2 = ("dict", d2[1] + [(s.perturb(R.choice(d1[1])[0]), s.val_t(0))])
            return s.render(kt) + " " + call("ㄷ", [s.render(d1), s.render(d2)]) + " ㅎㄴ", "merge-lookup"
        if k < .96:
            # ONE dictionary value (bound to a parameter) used several times: looked up, merged as the FIRST and as a later operand, compared with its
            # own literal, printed - in a random order inside one list; a merge must not change the dictionary it takes its entries from
            d1, d2 = s.dic_t(d), s.dic_t(d); kt = s.key_t(1)
            if d1[1] and R.random() < .5: d2 = ("dict", d2[1] + [(s.perturb(R.choice(d1[1])[0]) if R.random() < .5 else R.choice(d1[1])[0], s.val_t(0))])
            if d2[1] and R.random() < .7: kt = R.choice(d2[1] + d1[1])[0]
            X = s.render(d2); K = s.render(kt)
            uses = [f"(ㄱㅇㄱ {X} ㄷㅎㄷ)", f"({K} ㄱㅇㄱ ㅎㄴ) ((ㅈㅈㄱ) ㅎ) ㅅㄷㅎㄷ", "(ㄱㅇㄱ)", f"(ㄱㅇㄱ {s.render(d1)} ㄴㅎㄷ)", f"({X} ㄱㅇㄱ ㄷㅎㄷ)", f"(ㄱㅇㄱ {X} {X} ㄷㅎㄹ)", f"({K} (ㄱㅇㄱ {X} ㄷㅎㄷ) ㅎㄴ) ((ㅈㅈㄱ) ㅎ) ㅅㄷㅎㄷ"]
            R.shuffle(uses); uses = uses[:R.randrange(3, 7)]
            return f"{s.render(d1)} ({call('ㅁㄹ', uses)} ㅎ) ㅎㄴ", "shared-dict"
        if k < .985:
            # the SAME entries inserted in a different order, with keys that are different values but collide under the host's hash (-1 / -2,
            # 0 / 2^61-1, 0.5 / 2^60, [-1] / [-2]): the two dictionaries are equal - as operands of ㄴ, nested, as keys looked up, built, merged
            groups = [[("int", -1), ("int", -2)], [("int", 0), ("int", MP)], [("dy", 1, 1), ("int", 2**60)], [("list", [("int", -1)]), ("list", [("int", -2)])],
                      [("int", 1), ("int", 1 + MP)], [("float", -1), ("int", -2)], [("exc", [("int", -1)]), ("exc", [("int", -2)])]]
            gi = R.randrange(len(groups)); ks = list(groups[gi])
            if R.random() < .5: ks += R.choice([g_ for j_, g_ in enumerate(groups) if j_ != gi and {j_, gi} != {0, 5}])[:R.choice([1, 2])]
            ents = [(kt, s.val_t(0)) for kt in ks]; other = list(reversed(ents))
            if len(ents) > 2 and R.random() < .5: R.shuffle(other); other = other if other != ents else list(reversed(ents))
            if R.random() < .15: other = other[:-1] + [(other[-1][0], s.perturb(other[-1][1]))]          # control: one value changed - usually no longer equal
            A_, B_ = s.render(("dict", ents)), s.render(("dict", other)); c = R.random()
            wrap = R.choice([lambda x: x, lambda x: call("ㅁㄹ", [x]), lambda x: call("ㄷㅂ", [E(3), x]), lambda x: call("ㅅㅈ", [E(1), x])])
            if c < .4: return call("ㄴ", [wrap(A_), wrap(B_)]), "eq-reordered-dict"
            if c < .65: return f"{wrap(A_)} {call('ㅅㅈ', [wrap(B_), E(2)])} ㅎㄴ", "lookup-reordered-dict"
            if c < .85: return call("ㅅㅈ", [wrap(B_), E(2), wrap(A_), E(3)]), "dict-reordered-dict-keys"
            return f"{wrap(A_)} {call('ㄷ', [call('ㅅㅈ', [wrap(B_), E(2)]), call('ㅅㅈ', [wrap(A_), E(3)])])} ㅎㄴ", "merge-reordered-dict-keys"
        return s.dic(d), "dict"

def c06_eq(r, seed, tier, model_ok):
    """equality / dictionary programs over all kinds (nested <= 3) with adversarial numeric pairs whose host hashes collide
    (n vs n +- k(2^61-1), -1 vs -2, 2^53 +- 1 int vs double, 2^60 ...): model vs implementation, and implementation-only symmetry /
    transitivity / 'ㄴ k k' <=> lookup hit' oracles"""
    R = random.Random(seed * 7919 + 0xC06); g = EqGen(R); n = N(tier, 5000, 120000)
    cases = []; kinds = collections.Counter()
    for _ in range(n):
        t, k = g.prog(); cases.append(dict(text=t, floats=True, trace=False)); kinds[k] += 1
    a = impl_run(cases)
    verdicts = collections.Counter(res(x) for x in a if res(x) in ("V True", "V False"))
    if model_ok:
        b = model_run(cases)
        def nrm(f): f = list(f); f[0] = "V " + ",".join(str(ord(c)) for c in norm_dicts(decode_v(f[0])[2:])) if f[0].startswith("V ") else f[0]; return f
        dist, bad = compare(cases, a, b, fields=("res",), norm=nrm)
        r.slice("equality_vs_model", len(cases), len({c["text"] for c in cases}), [cases[0]["text"], cases[1]["text"]], dict(outcomes=dict(dist), kinds=dict(kinds), verdicts=dict(verdicts)),
                "generated ㄴ / dictionary build / lookup / merge programs; distinct = distinct program texts", bad)
    # implementation-only: symmetry and transitivity on value triples, and lookup consistency
    trip = []
    for _ in range(N(tier, 1500, 30000)):
        d = R.randrange(0, 3); xt = g.val_t(d); c = R.random(); yt = xt if c < .2 else g.perturb(xt) if c < .6 else g.val_t(d)
        c = R.random(); zt = yt if c < .2 else g.perturb(yt) if c < .6 else g.val_t(d); trip.append((g.render(xt), g.render(yt), g.render(zt)))
    progs = []
    for x, y, z in trip:
        progs += [call("ㄴ", [x, y]), call("ㄴ", [y, x]), call("ㄴ", [y, z]), call("ㄴ", [x, z]), f"{x} {call('ㅅㅈ', [y, E(7)])} ㅎㄴ"]
    o = [res(v).split(" @")[0] for v in impl_run([dict(text=p, trace=False) for p in progs])]          # verdict or error class; the failing WORD of an ill-typed operand differs between x = y and y = x
    bad2 = []
    for i, (x, y, z) in enumerate(trip):
        xy, yx, yz, xz, look = o[5 * i:5 * i + 5]
        if "nan" in (x + y + z): pass
        if xy != yx: bad2.append(dict(program=progs[5 * i], impl=f"{xy} but swapped {yx}", model="symmetric", which=["symmetry"]))
        if xy == "V True" and yz == "V True" and xz != "V True": bad2.append(dict(program=progs[5 * i + 3], impl=f"x=y, y=z but x=z is {xz}", model="transitive", which=["transitivity"]))
        if xy in ("V True", "V False") and (look == "V 7") != (xy == "V True"): bad2.append(dict(program=progs[5 * i + 4], impl=f"ㄴ says {xy}, lookup gives {look}", model="a key finds an entry iff it equals the stored key", which=["lookup-iff-equal"]))
    r.slice("equality_laws", len(progs), len(set(progs)), [progs[0]], dict(triples=len(trip)), "implementation-only oracle over random value triples: symmetry, transitivity, lookup hit <=> ㄴ", bad2[:40])

def c11_numerals(r, seed, tier, model_ok):
    """numerals as TEXT in every base 2..36 read by ㅈㅅ (integers: sign, the 0x / 0o / 0b prefixes of bases 16 / 8 / 2, either case) and by ㅅㅅ
    (integer.fraction digits of that base: the exact rational n / base^k rounded ONCE to the nearest double) - short and LONG numerals
    (fractions of up to 800 digits, values beyond 2^53 and beyond the largest double), trailing zeros, malformed texts, refused bases:
    expected values computed here with exact rationals, and the same programs against the model (Builtins.parse_int / float_in_base)"""
    from slices_world import st as strlit
    R = random.Random(seed * 7919 + 0xC11 + 5); DIG = "0123456789abcdefghijklmnopqrstuvwxyz"; cases = []; want = []; kinds = collections.Counter()
    def digits(b, n): return "".join(R.choice(DIG[:b]) for _ in range(n))
    for _ in range(N(tier, 700, 12000)):
        b = R.choice([2, 3, 5, 6, 7, 8, 10, 12, 16, 16, 20, 36, 36, R.randrange(2, 37)]); k = R.random()
        ip = digits(b, R.choice([0, 1, 1, 2, 3, 8, 20, 60] + ([900] if R.random() < .03 else []))); sign = R.choice(["", "", "-", "+"])
        fp = digits(b, R.choice([0, 1, 2, 3, 11, 19, 21, 35, 40, 70] + ([300, 700] if R.random() < .08 else [])))
        if R.random() < .3: fp = (fp.rstrip("0") or "1") + "0" * R.choice([1, 5, 33, 60])          # trailing zeros change nothing
        if R.random() < .25: ip = ip.upper(); fp = fp.upper()
        if k < .35 and ip:          # an integer
            pre = R.choice(["", "", {16: "0x", 8: "0o", 2: "0b"}.get(b, ""), {16: "0X", 8: "0O", 2: "0B"}.get(b, "")])
            t_ = R.choice(["", " ", "\t"]) + sign + pre + ip + R.choice(["", " ", "\n"])
            cases.append(dict(text=f"{strlit(t_)} {E(b)} ㅈㅅㅎㄷ", trace=False)); want.append(f"V {int(sign + ip, b)}"); kinds["integer"] += 1
        elif k < .80 and (ip or fp):
            t_ = R.choice(["", "  "]) + sign + ip + R.choice([".", "."] if fp else ["", "."]) + fp + R.choice(["", " "])
            n_ = int(sign + (ip + fp), b); d_ = b ** len(fp)
            try: w_ = "V " + repr(float(Fraction(n_, d_)) if n_ else 0.0)
            except OverflowError: w_ = "E 5,-39"
            if b == 10: w_ = None          # base ten goes through float(): compared with the model only
            cases.append(dict(text=f"{strlit(t_)} {E(b)} ㅅㅅㅎㄷ", trace=False)); want.append(w_); kinds["real"] += 1
        elif k < .92 and ip:
            # underscores (single, between digits, or right after the prefix; leading / trailing / doubled ones are malformed) and base 0 (the
            # prefix chooses the base; a decimal that starts with 0 must be zero): compared with the model only
            def us(d_):
                out = ""
                for i_, ch in enumerate(d_):
                    out += ch
                    if i_ + 1 < len(d_) and R.random() < .3: out += "_" if R.random() < .9 else "__"
                c_ = R.random(); return "_" + out if c_ < .06 else out + "_" if c_ < .12 else out
            c = R.random()
            if c < .45:
                pre = R.choice(["", "", {16: "0x", 8: "0o", 2: "0b"}.get(b, ""), {16: "0X_", 8: "0o_", 2: "0B_"}.get(b, "")])
                t_ = sign + pre + us(ip); fn = "ㅈㅅ"; bb = b
            elif c < .6: t_ = sign + us(ip) + "." + us(fp) if fp else sign + us(ip); fn = "ㅅㅅ"; bb = b
            else:
                bb = 0; fn = R.choice(["ㅈㅅ", "ㅈㅅ", "ㅈㅅ", "ㅅㅅ"]); b0 = R.choice([2, 8, 10, 10, 10, 16]); d_ = digits(b0, R.choice([1, 1, 2, 3, 8, 20]))
                pre = {16: R.choice(["0x", "0X", "0x_"]), 8: R.choice(["0o", "0O"]), 2: R.choice(["0b", "0B", "0b_"]), 10: R.choice(["", "", "0", "00", "0_"])}[b0]
                t_ = sign + pre + (us(d_) if R.random() < .4 else d_) + (R.choice(["", "", ".", "." + digits(b0, 2)]) if fn == "ㅅㅅ" else "")
                if R.random() < .1: t_ = R.choice(["0", "00", "0_0", "-0", "0x", "0b2", "0o8", "0_1", "1_0", "0x_", "_1", "1_", "0__0", "+0x_f", " 0b1 "])
            if R.random() < .2: t_ = R.choice([" ", "\t"]) + t_ + R.choice(["", " ", "\n"])
            cases.append(dict(text=f"{strlit(t_)} {E(bb)} {fn}ㅎㄷ", trace=False)); want.append(None); kinds["underscores-or-base-0"] += 1
        else:          # malformed or refused
            t_ = R.choice(["", ".", "-", "1.2.3", "1 .5", "1._5", ip + "." + fp + "z", "0x", "0x.8", "z" + ip, ip + " " + fp, "--1", "1e3"])
            bb = R.choice([b, b, 1, 37, -2, 40]); fn = R.choice(["ㅈㅅ", "ㅅㅅ"])
            cases.append(dict(text=f"{strlit(t_)} {E(bb)} {fn}ㅎㄷ", trace=False)); want.append(None); kinds["malformed-or-refused"] += 1
    # complex numbers as text (ㅂㅅ of a string: the text with every "i" written "j" goes to complex()): real [+/- imaginary i], the bare unit,
    # brackets and blanks, exponents, long digit strings, overflow, malformed texts; the two parts taken out exactly by calling the number with 0 / 1
    def real_text():
        k = R.random(); x = R.choice([1, -1]) * R.randrange(0, 10**R.choice([1, 3, 17, 25])) * 10.0 ** R.randrange(-30, 30)
        return repr(x) if k < .4 else f"{x:.{R.randrange(0, 20)}e}" if k < .6 else str(int(x)) if k < .8 and abs(x) < 1e30 else R.choice(["nan", "Inf", "-INF", "1e400", ".5", "5.", "1e", "0", "-0"])
    for _ in range(N(tier, 300, 5000)):
        k = R.random(); a_, b_ = real_text(), real_text().lstrip("-")
        t_ = a_ if k < .15 else b_ + "i" if k < .3 else a_ + R.choice("+-") + b_ + "i" if k < .7 else a_ + R.choice(["+i", "-i"]) if k < .78 else R.choice(["i", "-i", "+i"]) if k < .82 else \
             R.choice([a_ + "+" + b_, a_ + " + " + b_ + "i", a_ + "+-" + b_ + "i", b_ + "ii", "i" + b_, a_ + "+" + b_ + "I", a_ + "+" + b_ + "j", a_ + "+" + b_ + "J", "", "()", a_ + "i+" + b_])
        if R.random() < .25: t_ = R.choice(["(", " (", "( "]) + t_ + R.choice([")", " )", ") ", ""])
        if R.random() < .15: t_ = " " + t_ + "\n"
        z = f"({strlit(t_)} ㅂㅅㅎㄴ)"; c = R.random()
        cases.append(dict(text=z if c < .4 else f"{E(0)} {z} ㅎㄴ" if c < .7 else f"{E(1)} {z} ㅎㄴ", trace=False)); want.append(None); kinds["complex-text"] += 1
    a = impl_run(cases)
    bad = [dict(program=c["text"][:300], impl=res(o).split(" @")[0][:100], model="exact: " + w, which=["numeral"]) for c, o, w in zip(cases, a, want) if w is not None and res(o).split(" @")[0] != w]
    r.slice("numerals_exact", len(cases), len({c["text"] for c in cases}), [cases[0]["text"][:200]], dict(kinds), "numerals of bases 2..36 (long fractions, prefixes, trailing zeros) read by ㅈㅅ / ㅅㅅ vs exact rational arithmetic rounded once", bad[:40])
    if model_ok:
        b_ = model_run(cases, tlimit=20); dist, bad2 = compare(cases, a, b_, fields=("res",))
        r.slice("numerals_vs_model", len(cases), len({c["text"] for c in cases}), [cases[1]["text"][:200]], dict(outcomes=dict(dist)), "the same programs, malformed texts and refused bases included, vs Builtins.parse_int / float_in_base", bad2)

# ------------------------------------------------------------------ C11: numeric tower, doubles compared bit for bit
def c11_tower(r, seed, tier, model_ok):
    R = random.Random(seed * 7919 + 0xC11 + 1); n = N(tier, 4000, 100000)
    def integer():
        k = R.random()
        if k < .5: return R.randrange(-9, 10)
        if k < .7: return R.choice([1, -1]) * (2**R.randrange(50, 70) + R.randrange(-3, 4))
        if k < .8: return R.choice([1, -1]) * (2**R.randrange(1020, 1030) + R.randrange(-2**970, 2**970))
        if k < .9: return R.choice([1, -1]) * R.randrange(2**52, 2**54)
        return R.randrange(-10**6, 10**6)
    def num(d):
        k = R.random()
        if d <= 0 or k < .25: return E(integer())
        if k < .40: return call("ㅅㅅ", [num(d - 1)])
        if k < .43: return call("ㅂ", ["ㅂ", "ㅅ", R.choice(["ㅁ", "ㄴ", "ㅂ", "ㅈ"])])                              # inf, nan, pi, e
        if k < .45: return call(call("ㅂ", ["ㅂ", "ㅅ", "ㅈㄷ"]), [num(d - 1)])                                  # absolute value
        if k < .50: return call("ㅂㅅ", [num(d - 1)] + ([num(d - 1)] if R.random() < .7 else []))          # complex(real[, imaginary]) - either part may itself be complex
        if k < .65: return call("ㄱ", [num(d - 1) for _ in range(R.randrange(1, 5))])
        if k < .90: return call("ㄷ", [num(d - 1) for _ in range(R.randrange(1, 6))])
        if k < .93: return call(call("ㅂ", ["ㅂ", "ㅅ", "ㅂㄹ", R.choice("ㄱㄴㄷㄹㅁ")]), [num(d - 1)])
        if k < .97: return call(R.choice(["ㄴㄴ", "ㄴㅁ"]), [num(d - 1), num(d - 1)])          # floor-then-truncate division / fmod, any mix of integer and real
        return call("ㅈㅅ", [num(d - 1)])
    def prog():
        k = R.random(); d = R.randrange(1, 5)
        if k < .12:          # a use that depends on the KIND of a result (an integer where a real came out, or the reverse, prints alike but is not alike)
            x = num(d); c = R.randrange(6)
            return [f"{x} ({E(5)} {E(6)} {E(7)} ㅁㄹㅎㄹ) ㅎㄴ", f"{x} ㅈㅅㅎㄴ", f"{E(7)} {E(2)} {x} ㅅㅎㄹ", f"{x} {E(6)} (ㅂ ㅂㄷ ㄱ ㅂㅎㄹ) ㅎㄷ", f"{x} ㅁㅈㅎㄴ", f"{x} {x} ㅁㄹㅎㄷ ㅈㄷㅎㄴ"][c]
        if k < .5: return num(d)
        if k < .65: return call("ㅈ", [num(d), num(d)])
        if k < .7: return call(call("ㅂ", ["ㅂ", "ㅅ", R.choice(["ㄴㄴ", "ㅁㄴ"])]), [num(d)])                    # is NaN / is infinite
        if k < .9: return call("ㄴ", [num(d), num(d)])
        return call("ㅁㄹ", [num(d), num(d), num(d)])
    cases = [dict(text=prog(), floats=True, trace=False) for _ in range(n)]
    a = impl_run(cases)
    floats = sum(1 for x in a if x.startswith("V") and vlib._FL.search(res(x)))
    # implementation-only: ㅈ is a strict total order consistent with ㄴ on finite reals
    fin = []
    for _ in range(N(tier, 800, 15000)):
        x, y, z = num(1), num(1), num(1); fin.append((x, y, z))
    progs = []
    for x, y, z in fin: progs += [call("ㅈ", [x, y]), call("ㅈ", [y, x]), call("ㄴ", [x, y]), call("ㅈ", [y, z]), call("ㅈ", [x, z]), call("ㅈ", [x, x])]
    o = [res(v) for v in impl_run([dict(text=p, trace=False) for p in progs])]
    bad2 = []
    for i, t in enumerate(fin):
        lt, gt, eq, yz, xz, xx = o[6 * i:6 * i + 6]
        if not all(v in ("V True", "V False") for v in (lt, gt, eq, yz, xz, xx)): continue
        if "ㄴ ㅂㅎㄹ" in "".join(t): continue          # a NaN operand: no order
        if [lt, gt, eq].count("V True") != 1: bad2.append(dict(program=progs[6 * i], impl=f"x<y {lt}, y<x {gt}, x=y {eq}", model="exactly one of <, >, = holds", which=["trichotomy"]))
        if lt == "V True" and yz == "V True" and xz != "V True": bad2.append(dict(program=progs[6 * i + 4], impl="x<y, y<z but not x<z", model="transitive", which=["transitivity"]))
        if xx == "V True": bad2.append(dict(program=progs[6 * i + 5], impl="x<x", model="irreflexive", which=["irreflexive"]))
    # implementation-only: the division law on REAL / mixed operands, on dyadic values where everything is exact:
    #   a = q * d + r,  q = the quotient truncated toward zero,  |r| < |d|,  r has the sign of a (or is 0)
    def dy(i, e): return f"(({E(i)} ㅅㅅㅎㄴ) (ㄷ ㅅㅅㅎㄴ {E(e)} ㅅㅎㄷ) ㄱㅎㄷ)" if e else f"({E(i)} ㅅㅅㅎㄴ)"
    dl = []; dw = []
    for _ in range(N(tier, 1500, 30000)):
        e1, e2 = R.choice([0, -1, -3, 2]), R.choice([0, -1, -3, 2]); i = R.randrange(-400, 401); j = R.choice([-1, 1]) * R.randrange(1, 60)
        fa = Fraction(i) * Fraction(2) ** e1; fd = Fraction(j) * Fraction(2) ** e2; kind = R.randrange(3)
        ta = E(i) if (kind == 1 and e1 == 0) else dy(i, e1); td = E(j) if (kind == 2 and e2 == 0) else dy(j, e2)
        if ta == E(i) and td == E(j): td = dy(j, e2) if e2 else f"({E(j)} ㅅㅅㅎㄴ)"      # at least one real operand
        q = Fraction(int(fa / fd)) if fa / fd >= 0 else -Fraction(int(-fa / fd)); rem = fa - q * fd
        dl.append(dict(text=call("ㅁㄹ", [call("ㄴㄴ", [ta, td]), call("ㄴㅁ", [ta, td])]), floats=True, trace=False))
        dw.append(f"V [{float(q) + 0.0!r}, {float(rem) + 0.0!r}]")
    da = impl_run(dl)
    if model_ok:
        db = model_run(dl); ddist, dbad = compare(dl, da, db, fields=("res",))
        r.slice("real_division_vs_model", len(dl), len({c["text"] for c in dl}), [dl[1]["text"]], dict(outcomes=dict(ddist)), "the same ㄴㄴ / ㄴㅁ cases vs the model's transcription of CPython's float_divmod / C fmod (bit-exact)", dbad)
    bad3 = [dict(program=c["text"], impl=NZ(res(o))[:120], model="quotient truncated toward zero, remainder with the dividend's sign: " + w, which=["real-division-law"]) for c, o, w in zip(dl, da, dw) if NZ(res(o)) != w]
    r.slice("real_division_law", len(dl), len({c["text"] for c in dl}), [dl[0]["text"]], dict(), "ㄴㄴ / ㄴㅁ with at least one real operand on exactly representable dyadic values, all sign combinations, vs exact rational arithmetic", bad3[:40])
    r.slice("order_laws", len(progs), len(set(progs)), [progs[0]], dict(triples=len(fin)), "implementation-only: ㅈ irreflexive, transitive, trichotomous with ㄴ on mixed integer / real operands", bad2[:40])
    if model_ok:
        b = model_run(cases); dist, bad = compare(cases, a, b, fields=("res",))
        r.slice("numeric_tower_vs_model", len(cases), len({c["text"] for c in cases}), [cases[0]["text"]], dict(outcomes=dict(dist), double_results=floats),
                "sums / products of 1-5 mixed operands (integers around 2^53, 2^63, 2^1024, inf, nan), conversions, roundings, ㅈ, ㄴ; doubles compared bit for bit in canonical F<m>p<e> form", bad)

# ------------------------------------------------------------------ C12
def c12_seq(r, seed, tier, model_ok):
    """sequences of the three kinds (length 0..40, astral code points) x index / slice (all sign combinations, zero step, out of range) /
    map / filter / folds (both directions, with and without initial value) / split / join / concatenation / length, model vs implementation;
    and join(split(s, sep), sep) == s as an implementation-side oracle"""
    R = random.Random(seed * 7919 + 0xC12); n = N(tier, 6000, 150000)
    CH = [0x41, 0x61, 0x20, 0x2C, 0xAC00, 0x1F600, 0x10348, 0xE9, 0x30]
    def bytes_lit(bs): return f"({E(int.from_bytes(bs, 'little'))} ㄴ {E(len(bs))} ㅂ ㅂ ㅂㅎㄷ ㅎㄷ ㅎㄴ)"
    def str_lit(s): return f"({bytes_lit(s.encode('utf-32-le'))} ㄱ ㅁ ㄱㅈㅎㄱ ㅂ ㅂ ㅂㅎㄷ ㅎㄹ ㅎㄴ)" if s else "(ㅁㅈㅎㄱ)"
    def seq(kind, ln=None):
        ln = R.randrange(0, 12) if ln is None else ln
        if kind == "list": return call("ㅁㄹ", [E(R.randrange(-9, 10)) for _ in range(ln)]), ln
        if kind == "bytes": return (bytes_lit(bytes(R.randrange(256) for _ in range(ln))) if ln else "(ㄱ ㄴ ㄱ ㅂ ㅂ ㅂㅎㄷ ㅎㄷ ㅎㄴ)"), ln
        return str_lit("".join(chr(R.choice(CH)) for _ in range(ln))), ln
    def idx(ln): return R.choice([0, 1, -1, ln, ln - 1, -ln, -ln - 1, ln + 3, -ln - 5, R.randrange(-45, 46)])
    cases = []; kinds = collections.Counter()
    for _ in range(n):
        kind = R.choice(["list", "str", "bytes"]); s, ln = seq(kind, R.choice([None, None, R.randrange(0, 41)])); k = R.random()
        if k < .2: t = f"{E(idx(ln))} {s} ㅎㄴ"; kk = "index"
        elif k < .5:
            args = [s, E(idx(ln))] + ([E(idx(ln))] if R.random() < .8 else [])
            if len(args) == 3 and R.random() < .7: args.append(E(R.choice([1, 2, 3, -1, -2, -3, 0, 4, -4, 50])))
            t = call("ㅂㅈ", args); kk = "slice"
        elif k < .56: t = call("ㅈㄷ", [s]); kk = "len"
        elif k < .64 and kind == "list": t = call("ㅁㄷ", [s, R.choice(["ㅁㅈ", "(ㄱㅇㄱ ㄷ ㄱㅎㄷ ㅎ)", "(ㄱㅇㄱ ㄱㅇㄱ ㄷㅎㄷ ㅎ)"])]); kk = "map"
        elif k < .72 and kind == "list": t = call("ㅅㅂ", [s, R.choice(["(ㄱㅇㄱ ㄱ ㅈㅎㄷ ㅎ)", "(ㄱ ㄱㅇㄱ ㅈㅎㄷ ㅎ)", "(ㅈㅈㅎㄱ ㅎ)"])]); kk = "filter"
        elif k < .82 and kind == "list":
            f = R.choice(["ㄷ", "(ㄱㅇㄱ ㄷ ㄱㅎㄷ ㄴㅇㄱ ㄷㅎㄷ ㅎ)", "(ㄱㅇㄱ ㄴㅇㄱ ㄷ ㄱㅎㄷ ㄷㅎㄷ ㅎ)"]); init = [E(R.randrange(-3, 4))] if R.random() < .5 else []
            t = call("ㅅㄹ", [s] + init + [f]) if R.random() < .5 else call("ㅅㄹ", [f] + init + [s]); kk = "fold"
        elif k < .9 and kind != "list":
            sep, _ = seq(kind, R.choice([0, 1, 1, 2])); t = call("ㅂㄹ", [s] + ([sep] if R.random() < .8 else [])); kk = "split"
        elif k < .95 and kind != "list":
            sep, _ = seq(kind, R.choice([0, 1, 2])); parts = [seq(kind, R.randrange(0, 4))[0] for _ in range(R.randrange(0, 4))]
            t = call("ㄱㅁ", [call("ㅁㄹ", parts)] + ([sep] if R.random() < .8 else [])); kk = "join"
        else: t = call("ㄷ", [s, seq(kind)[0]] + ([seq(kind)[0]] if R.random() < .3 else [])); kk = "concat"
        if kk in ("slice", "map", "filter", "concat", "split", "join") and R.random() < .4:
            # the RESULT of one sequence operation handed to another: it must be a sequence of the documented kind in every respect, not only when printed
            c2 = R.choice(["index", "index", "len", "slice", "concat", "equal", "map", "filter", "fold", "index-of-slice"]); inner = f"({t})"
            if c2 == "index": t = f"{E(R.choice([0, 1, -1, 2, -2, 5, -7]))} {inner} ㅎㄴ"
            elif c2 == "len": t = call("ㅈㄷ", [inner])
            elif c2 == "slice": t = call("ㅂㅈ", [inner, E(R.choice([0, 1, -1, -3])), E(R.choice([0, 2, -1, 9])), E(R.choice([1, 2, -1]))])
            elif c2 == "concat": t = call("ㄷ", [inner, inner])
            elif c2 == "equal": t = call("ㄴ", [inner, inner])
            elif c2 == "map": t = call("ㅁㄷ", [inner, "(ㄱㅇㄱ ㅎ)"])
            elif c2 == "filter": t = call("ㅅㅂ", [inner, "(ㅈㅈㅎㄱ ㅎ)"])
            elif c2 == "fold": t = call("ㅅㄹ", [inner, E(0), "(ㄴㅇㄱ ㅎ)"])
            else: t = f"{E(R.choice([0, -1, 1]))} {call('ㅂㅈ', [inner, E(R.choice([0, 1])), E(R.choice([5, -1, 2]))])} ㅎㄴ"
            kk = kk + ">" + c2
        cases.append(dict(text=t, trace=False)); kinds[kind + ":" + kk] += 1
    a = impl_run(cases)
    # oracle: join . split = id
    js = []
    for _ in range(N(tier, 1000, 20000)):
        kind = R.choice(["str", "bytes"]); s, _ = seq(kind, R.randrange(0, 25)); sep, _ = seq(kind, R.choice([1, 1, 2, 3]))
        js.append(call("ㄴ", [call("ㄱㅁ", [call("ㅂㄹ", [s, sep]), sep]), s]))
    jo = [res(v) for v in impl_run([dict(text=p, trace=False) for p in js])]
    bad2 = [dict(program=p, impl=o, model="V True (join of the split pieces restores the original)", which=["join_split"]) for p, o in zip(js, jo) if o != "V True"]
    r.slice("join_split_law", len(js), len(set(js)), [js[0]], dict(), "implementation-only: ㄱㅁ (ㅂㄹ s sep) sep = s for non-empty separators, strings and byte strings", bad2[:40])
    if model_ok:
        b = model_run(cases); dist, bad = compare(cases, a, b, fields=("res",))
        r.slice("sequences_vs_model", len(cases), len({c["text"] for c in cases}), [cases[0]["text"]], dict(outcomes=dict(dist), kinds=dict(kinds)),
                "three sequence kinds x index / slice / len / map / filter / fold / split / join / concat, edge indices, astral code points", bad)

# ------------------------------------------------------------------ C16
def utf_encode(s, w, order):
    """written from RFC 3629 / RFC 2781 / UTF-32 definition, independent of the Python codecs; order in ('le','be',None)"""
    out = []
    def put(v, nbytes, o): out.extend(v.to_bytes(nbytes, "big" if o == "be" else "little"))
    if w == 1:
        for ch in s:
            c = ord(ch)
            if c < 0x80: out.append(c)
            elif c < 0x800: out += [0xC0 | c >> 6, 0x80 | c & 0x3F]
            elif c < 0x10000: out += [0xE0 | c >> 12, 0x80 | (c >> 6) & 0x3F, 0x80 | c & 0x3F]
            else: out += [0xF0 | c >> 18, 0x80 | (c >> 12) & 0x3F, 0x80 | (c >> 6) & 0x3F, 0x80 | c & 0x3F]
        return bytes(out)
    o = order or "le"
    if order is None: put(0xFEFF, 2 * (w // 2), o)
    for ch in s:
        c = ord(ch)
        if w == 4: put(c, 4, o)
        elif c < 0x10000: put(c, 2, o)
        else: c -= 0x10000; put(0xD800 | c >> 10, 2, o); put(0xDC00 | c & 0x3FF, 2, o)
    return bytes(out)

def c16_codecs(r, seed, tier, model_ok):
    """integers in and just outside range x widths 0..16 x {big, little, unspecified} x {signed, unsigned}: encode, decode, round trip,
    rejection, vs the extracted two's-complement model; strings of scalar values x UTF-8/16/32 x byte orders vs an independent RFC encoder"""
    R = random.Random(seed * 7919 + 0xC16); n = N(tier, 6000, 200000)
    def fmtb(bs): return "b'" + "".join(f"\\x{x:02X}" for x in bs) + "'"
    def codec(sch, w, order): return call(call("ㅂ", ["ㅂ", "ㅂ"]), [E(sch), E(w)] + ([] if order is None else [call("ㅈㅈ" if order == "be" else "ㄱㅈ", [])]))
    cases = []; want = []; kinds = collections.Counter()
    ints = []
    def bounds(w, signed):          # two's complement in w bytes; NO bytes hold 0 and nothing else (-1/2 <= n < 1/2)
        return (0, 0) if w == 0 else (-(256**w) // 2, 256**w // 2 - 1) if signed else (0, 256**w - 1)
    for w in range(0, 17):
        for signed in (False, True):
            lo, hi = bounds(w, signed)
            pts = {lo, lo - 1, lo + 1, hi, hi + 1, hi - 1, 0, -1, 1, lo - 3, hi + 3}
            if w <= 2 and tier != "quick": pts |= set(range(lo - 2, hi + 3))
            elif w == 1: pts |= set(range(lo - 2, hi + 3))
            for _ in range(12): pts.add(R.randrange(lo, hi + 1))
            for v in pts:
                for order in (None, "le", "be"): ints.append((w, signed, order, v))
    R.shuffle(ints)
    for w, signed, order, v in ints[:n]:
        lo, hi = bounds(w, signed)
        c = codec(2 if signed else 1, w, order)
        cases.append(dict(text=f"{E(v)} {c} ㅎㄴ", trace=False)); kinds["int-encode"] += 1
        if lo <= v <= hi:
            bs = v.to_bytes(w, "big" if order == "be" else "little", signed=signed); want.append("V " + fmtb(bs))
            cases.append(dict(text=f"({E(v)} {c} ㅎㄴ) {c} ㅎㄴ", trace=False)); want.append(f"V {v}"); kinds["int-roundtrip"] += 1
        else: want.append("E 5,-39")
    # DECODING ignores the codec's width: a byte string of ANY length is read in the requested order (little-endian when none is requested) -
    # widths 1..4 (width 1 with an explicit big-endian order included) x lengths 0..5 that differ from the width, both signednesses
    for w in (1, 1, 2, 3, 4, 8):
        for signed in (False, True):
            for order in (None, "le", "be"):
                for _ in range(N(tier, 4, 20)):
                    ln = R.choice([x for x in (0, 1, 2, 3, 5, 9) if x != w]); bs = bytes(R.randrange(256) for _ in range(ln))
                    if ln >= 2 and R.random() < .4: bs = bytes([R.choice([0x80, 0xFF, 0x01])]) + bs[1:-1] + bytes([R.choice([0x00, 0x7F, 0x80])])      # sign bit at one end only
                    c = codec(2 if signed else 1, w, order)
                    lit = f"({E(int.from_bytes(bs, 'little'))} ㄴ {E(len(bs))} ㅂ ㅂ ㅂㅎㄷ ㅎㄷ ㅎㄴ)" if bs else "(ㄱ ㄴ ㄱ ㅂ ㅂ ㅂㅎㄷ ㅎㄷ ㅎㄴ)"
                    cases.append(dict(text=f"{lit} {c} ㅎㄴ", trace=False)); want.append(f"V {int.from_bytes(bs, 'big' if order == 'be' else 'little', signed=signed)}"); kinds["int-decode-any-length"] += 1
    strs = []
    for _ in range(N(tier, 1500, 40000)):
        s = "".join(chr(R.choice([R.randrange(0x20, 0x7F), R.randrange(0x80, 0x800), R.randrange(0x800, 0xD800), R.randrange(0xE000, 0x10000), R.randrange(0x10000, 0x110000), 0x7F, 0x80, 0x7FF, 0x800, 0xFFFF, 0x10000, 0x10FFFF, 0xFEFF, 0xFFFE, 0])) for _ in range(R.randrange(0, 8)))
        if R.random() < .15: s = R.choice(["\ufeff", "\ufffe", "\ufeff\ufeff", "\x00"]) + s      # code points that look like byte-order marks are ordinary characters of the string
        w = R.choice([1, 2, 4]); order = None if w == 1 else R.choice([None, "le", "be"]); strs.append((s, w, order))
    def bytes_lit(bs): return f"({E(int.from_bytes(bs, 'little'))} ㄴ {E(len(bs))} ㅂ ㅂ ㅂㅎㄷ ㅎㄷ ㅎㄴ)" if bs else "(ㄱ ㄴ ㄱ ㅂ ㅂ ㅂㅎㄷ ㅎㄷ ㅎㄴ)"
    for s, w, order in strs:
        src = f"({bytes_lit(s.encode('utf-32-le'))} ㄱ ㅁ ㄱㅈㅎㄱ ㅂ ㅂ ㅂㅎㄷ ㅎㄹ ㅎㄴ)" if s else "(ㅁㅈㅎㄱ)"
        c = codec(0, w, order); enc = utf_encode(s, w, order)
        cases.append(dict(text=f"{src} {c} ㅎㄴ", trace=False)); want.append("V " + fmtb(enc)); kinds[f"utf{8 * w}-encode"] += 1
        cases.append(dict(text=f"({bytes_lit(enc)} {c} ㅎㄴ) {src} ㄴㅎㄷ", trace=False)); want.append("V True"); kinds[f"utf{8 * w}-decode"] += 1
    # malformed byte strings must be rejected with a language-level exception
    for _ in range(N(tier, 300, 5000)):
        w = R.choice([1, 2, 4]); bad_bs = R.choice([b"\xC0\x80", b"\xED\xA0\x80", b"\xF4\x90\x80\x80", b"\xE2\x82", b"\x80", b"\x00\xD8\x00\x00", b"\x00\xDC", b"\x00\x00\x11\x00", b"\x00\xD8\x00", b"\xFF"])
        cases.append(dict(text=f"{bytes_lit(bad_bs)} {codec(0, w, R.choice(['le', None]) if w > 1 else None)} ㅎㄴ", trace=False)); want.append("?"); kinds["utf-malformed"] += 1
    # strings that arrive from INPUT can hold what no converter accepts: lone surrogates (the host decodes undecodable input bytes into
    # U+DC80..U+DCFF; any surrogate may be pasted in) - every UTF converter must reject them with the language's exception, in every byte order,
    # and must still convert the well-formed lines read the same way
    for line in ["\udc80", "x\udcffy", "\ud800", "a\udbff", "\udc00b", "\udfff", "\ud83d", "\ude00\ud83d", "ok\U0001F600", "한글 abc", "\ud83d\ude00"]:
        lone = any(0xD800 <= ord(ch) <= 0xDFFF for ch in line)
        for w in (1, 2, 4):
            for order in ((None,) if w == 1 else (None, "le", "be")):
                cases.append(dict(text=f"(ㄹㅎㄱ) ((ㄱㅇㄱ {codec(0, w, order)} ㅎㄴ) ㄱㅅㅎㄴ ㅎ) ㄱㄹㅎㄷ", stdin=[line], trace=False))
                want.append("E 5,-39" if lone else "V " + fmtb(utf_encode(line, w, order))); kinds["utf-from-input" + ("-lone-surrogate" if lone else "")] += 1
    a = impl_run(cases); bad = []
    for c, o, w in zip(cases, a, want):
        got = res(o)
        if w == "?":
            if got.startswith("HOST"): bad.append(dict(program=c["text"], impl=got, model="a string or a language-level value exception", which=["malformed"]))
        elif not (got == w or (w.startswith("E ") and got.startswith(w))): bad.append(dict(program=c["text"], impl=got[:200], model="independent definition: " + w[:200], which=["codec"]))
    r.slice("codecs_vs_definition", len(cases), len({c["text"] for c in cases}), [cases[0]["text"], cases[-400]["text"]], dict(kinds),
            "two's complement by int.to_bytes and UTF-8/16/32 by an RFC encoder written in the harness; widths 1..16, boundaries +-3, three byte orders; distinct = distinct programs", bad[:40])
    if model_ok:
        # UTF-8: the implementation's encoder / decoder against the RFC 3629 model proved in Utf.v (round trip, strictness)
        u8 = [(s_, utf_encode(s_, 1, None)) for s_, w, o in strs if w == 1]
        mo = vlib.driver("driver", ["U8\t" + ",".join(str(ord(ch)) for ch in s_) for s_, _ in u8])
        badu = [dict(program="utf-8 of code points " + str([hex(ord(ch)) for ch in s_]), impl="harness RFC encoder " + str(list(e_)), model=m_, which=["utf8-model"]) for (s_, e_), m_ in zip(u8, mo) if m_ != ",".join(str(b) for b in e_)]
        rnd = [bytes(R.randrange(256) for _ in range(R.randrange(1, 6))) for _ in range(N(tier, 3000, 60000))] + [b"\xC0\x80", b"\xED\xA0\x80", b"\xF4\x90\x80\x80", b"\xE0\x80\x80", b"\xF0\x80\x80\x80", b"\xEF\xBB\xBF", b"\xF4\x8F\xBF\xBF"]
        md = vlib.driver("driver", ["U8D\t" + ",".join(str(b) for b in bs) for bs in rnd])
        dec_cases = [dict(text=f"{bytes_lit(bs)} {codec(0, 1, None)} ㅎㄴ", trace=False) for bs in rnd]; da = impl_run(dec_cases)
        for bs, m_, o in zip(rnd, md, da):
            got = res(o)
            try: py = bs.decode("utf-8"); want_ok = True
            except UnicodeDecodeError: want_ok = False
            if (m_ != "REJECT") != want_ok or (got.startswith("V ")) != want_ok: badu.append(dict(program="utf-8 decode of " + str(list(bs)), impl=got[:80], model=m_[:80], which=["utf8-strict-decoder"]))
            elif want_ok and m_ != "OK " + ",".join(str(ord(ch)) for ch in py): badu.append(dict(program="utf-8 decode of " + str(list(bs)), impl=got[:80], model=m_[:80], which=["utf8-decoder-value"]))
        r.slice("utf8_vs_proved_model", len(u8) + len(rnd), len(u8) + len(set(rnd)), [str(list(rnd[0]))], dict(encoded_strings=len(u8), byte_strings_decoded=len(rnd), accepted=sum(1 for x in md if x != "REJECT")),
                "UTF-8 encoding of generated strings and strict decoding of random / malformed byte strings: implementation vs the RFC 3629 model of Utf.v (whose round trip is a theorem)", badu[:40])
        # UTF-16 / UTF-32 in each byte order and with a byte-order mark: implementation and harness encoder vs the model of Utf16.v (round trips are theorems)
        wide = [(s_, w, o) for s_, w, o in strs if w in (2, 4)]
        lines = [f"U{8 * w}\t{o or 'bom'} " + ",".join(str(ord(ch)) for ch in s_) for s_, w, o in wide]
        mo = vlib.driver("driver", lines); badw = []
        ec = [dict(text=(f"({bytes_lit(s_.encode('utf-32-le'))} ㄱ ㅁ ㄱㅈㅎㄱ ㅂ ㅂ ㅂㅎㄷ ㅎㄹ ㅎㄴ)" if s_ else "(ㅁㅈㅎㄱ)") + f" {codec(0, w, o)} ㅎㄴ", trace=False) for s_, w, o in wide]; ea = impl_run(ec)
        for (s_, w, o), m_, c_, o_ in zip(wide, mo, ec, ea):
            mb = bytes(int(x) for x in m_.split(",")) if m_ else b""
            if res(o_) != "V " + fmtb(mb): badw.append(dict(program=c_["text"], impl=res(o_)[:160], model=f"Utf16.v: {fmtb(mb)[:160]}", which=[f"utf{8 * w}-encode-model"]))
        rndw = []
        for _ in range(N(tier, 3000, 60000)):
            w = R.choice([2, 4]); o = R.choice([None, "le", "be"]); k = R.random()
            if k < .5: bs = bytes(R.randrange(256) for _ in range(R.choice([w, 2 * w, 3 * w, w + 1, 2 * w - 1])))
            else:      # units around the surrogate range and the top of the code space, in the requested order, possibly after a mark of either order
                us = [R.choice([0xD7FF, 0xD800, 0xDBFF, 0xDC00, 0xDFFF, 0xE000, 0xFEFF, 0xFFFE, 0x41, 0xFFFF] + ([0x10000, 0x10FFFF, 0x110000] if w == 4 else [])) for _ in range(R.randrange(1, 4))]
                big = (o == "be") if o else R.random() < .3
                bs = b"".join(u.to_bytes(w, "big" if big else "little") for u in us)
                if o is None and R.random() < .7: bs = (0xFEFF).to_bytes(w, "big" if big else "little") + bs
            rndw.append((w, o, bs))
        md = vlib.driver("driver", [f"U{8 * w}D\t{o or 'bom'} " + ",".join(str(b) for b in bs) for w, o, bs in rndw])
        dc = [dict(text=f"({bytes_lit(bs)} {codec(0, w, o)} ㅎㄴ) (ㄱ ㅁ ㄱㅈㅎㄱ ㅂ ㅂ ㅂㅎㄷ ㅎㄹ) ㅎㄴ", trace=False) for w, o, bs in rndw]      # decode, then show the string as UTF-32-LE bytes
        da = impl_run(dc)
        for (w, o, bs), m_, c_, o_ in zip(rndw, md, dc, da):
            got = res(o_)
            if m_ == "REJECT":
                if not got.startswith("E 5,"): badw.append(dict(program=c_["text"], impl=got[:160], model=f"Utf16.v rejects the bytes {list(bs)} (order {o})", which=[f"utf{8 * w}-strict-decoder"]))
            else:
                cps = [int(x) for x in m_[3:].split(",")] if m_[3:] else []; wantb = b"".join(cp.to_bytes(4, "little") for cp in cps)
                if got != "V " + fmtb(wantb): badw.append(dict(program=c_["text"], impl=got[:160], model=f"Utf16.v decodes {list(bs)} (order {o}) to code points {cps}", which=[f"utf{8 * w}-decoder-value"]))
        r.slice("utf16_32_vs_proved_model", len(wide) + len(rndw), len({(s_, w, o) for s_, w, o in wide}) + len(set(rndw)), [str(rndw[0])], dict(encoded_strings=len(wide), byte_strings_decoded=len(rndw), accepted=sum(1 for x in md if x != "REJECT")),
                "UTF-16 / UTF-32 encoding of generated strings (le / be / byte-order mark) and strict decoding of random and boundary byte strings: implementation vs the model of Utf16.v", badw[:40])
        ic = [c for c, w in zip(cases, want) if "ㅁ ㄱㅈㅎㄱ" not in c["text"] and w != "?" and "ㅁㅈㅎㄱ" not in c["text"]]
        ia = [o for c, o, w in zip(cases, a, want) if "ㅁ ㄱㅈㅎㄱ" not in c["text"] and w != "?" and "ㅁㅈㅎㄱ" not in c["text"]]
        b = model_run(ic); dist, bad2 = compare(ic, ia, b, fields=("res",))
        r.slice("int_codecs_vs_model", len(ic), len({c["text"] for c in ic}), [ic[0]["text"]], dict(outcomes=dict(dist)), "the integer codec cases against the extracted model (Builtins.codec_body = Codec.enc / dec)", bad2)

# ------------------------------------------------------------------ C17
def c17_bits(r, seed, tier, model_ok):
    """integer pairs up to 2^200 x all sign combinations x shift counts -300..300 through the bitwise module vs Python's own big-integer
    bit operations (= infinite two's complement) and vs the model; the five roundings on doubles m * 2^e built exactly, vs exact rational
    arithmetic (Fractions) and vs the model's integer-arithmetic roundings"""
    R = random.Random(seed * 7919 + 0xC17); n = N(tier, 5000, 150000)
    def big(): return R.choice([-1, 1]) * R.getrandbits(R.choice([1, 4, 8, 63, 64, 65, 200]))
    cases = []; want = []
    OPS = {"ㄱ": lambda x, y: x & y, "ㄷ": lambda x, y: x | y, "ㅂ": lambda x, y: x ^ y}
    for _ in range(n):
        k = R.choice(["ㄱ", "ㄷ", "ㅂ", "ㅁ", "ㅈ", "ㅈ"]); f = call("ㅂ", ["ㅂ", "ㅂㄷ", k]); x = big()
        if k == "ㅁ": cases.append(dict(text=f"{E(x)} {f} ㅎㄴ", trace=False)); want.append(str(~x))
        elif k == "ㅈ":
            s = R.choice([0, 1, -1, 63, 64, -64, R.randrange(-300, 301)]); cases.append(dict(text=f"{E(x)} {E(s)} {f} ㅎㄷ", trace=False)); want.append(str(x << s if s >= 0 else x >> -s))
        else: y = big(); cases.append(dict(text=f"{E(x)} {E(y)} {f} ㅎㄷ", trace=False)); want.append(str(OPS[k](x, y)))
    a = impl_run(cases)
    bad = [dict(program=c["text"], impl=res(o)[:200], model="two's complement: " + w[:200], which=["bitwise"]) for c, o, w in zip(cases, a, want) if res(o) != "V " + w]
    # shift counts far beyond any machine word: a right shift of anything, and ANY shift of zero, is still defined (0, or -1 for negative operands);
    # only a left shift of a non-zero operand by such a count has no representable result (the language's arithmetic exception)
    hc = []; hw = []
    fsh = call("ㅂ", ["ㅂ", "ㅂㄷ", "ㅈ"])
    for cnt_ in (2**31, 2**32, 2**62, 2**63, 2**64, 2**100):
        for x in (0, 1, -1, 5, -2**70, 2**70 + 3):
            hc.append(dict(text=f"{E(x)} {E(-cnt_)} {fsh} ㅎㄷ", trace=False)); hw.append("V " + str(-1 if x < 0 else 0))
            if x == 0 or cnt_ >= 2**62: hc.append(dict(text=f"{E(x)} {E(cnt_)} {fsh} ㅎㄷ", trace=False, tlimit=10)); hw.append("V 0" if x == 0 else "E 5,-54")
    ha = impl_run(hc)
    bad += [dict(program=c["text"], impl=res(o)[:200], model="infinite two's complement: " + w, which=["bitwise-huge-count"]) for c, o, w in zip(hc, ha, hw) if w is not None and res(o).split(" @")[0] != w]
    r.slice("bitwise_vs_definition", len(cases) + len(hc), len({c["text"] for c in cases}), [cases[0]["text"]], dict(bits="1..200", shifts="-300..300"), "bitwise module vs unbounded two's-complement arithmetic", bad[:40])
    if model_ok:
        b = model_run(cases); dist, bad2 = compare(cases, a, b, fields=("res",))
        r.slice("bitwise_vs_model", len(cases), len({c["text"] for c in cases}), [cases[1]["text"]], dict(outcomes=dict(dist)), "same programs vs the extracted model", bad2)
    # roundings: x = m * 2^e exactly (m < 2^53, product exact), expected value by exact rational arithmetic
    rc = []; rw = []; dm = []
    def exact_round(q, k):
        fl = q.numerator // q.denominator; ce = -((-q.numerator) // q.denominator)
        if k == 0: return fl if q >= 0 else ce
        if k == 1: return fl
        if k == 3: return ce
        if k == 4: return ce if q >= 0 else fl
        d = q - fl
        if d < Fraction(1, 2): return fl
        if d > Fraction(1, 2): return fl + 1
        return fl if fl % 2 == 0 else fl + 1
    for _ in range(N(tier, 4000, 100000)):
        kind = R.random()
        if kind < .3: m = R.randrange(1, 2**53); e = R.randrange(-60, 11)
        elif kind < .5: m = 2 * R.randrange(0, 2**20) + 1; e = -1                       # half-integers: ties
        elif kind < .7: m = R.randrange(2**52, 2**53); e = R.choice([-1, 0, 1, 10, 11, 200, 900])     # around and beyond 2^53, 2^63
        elif kind < .8: m = R.randrange(1, 2**53); e = R.randrange(-1074, -900)       # tiny
        else: m = R.randrange(1, 1000); e = R.randrange(-12, 3)
        if e + m.bit_length() > 1023: continue
        s = R.choice([1, -1]); k = R.randrange(0, 5); q = Fraction(s * m) * Fraction(2) ** e
        # 2^e as a product of exactly representable factors (|exponent| <= 1000 each), all multiplications exact
        parts = []; ee = e
        while ee != 0:
            st = max(-1000, min(1000, ee)); parts.append(f"(ㄷ ㅅㅅㅎㄴ {E(st)} ㅅㅎㄷ)"); ee -= st
        x = call("ㄱ", [f"({E(s * m)} ㅅㅅㅎㄴ)"] + parts)
        rc.append(dict(text=f"{x} {call('ㅂ', ['ㅂ', 'ㅅ', 'ㅂㄹ', 'ㄱㄴㄷㄹㅁ'[k]])} ㅎㄴ", trace=False)); rw.append(str(exact_round(q, k)))
        mm, e2 = m, e
        dm.append(f"F\t{k} {'-' if s < 0 else '+'} {mm} {e2}")
    # INTEGER operands: every rounding is the identity on them, however large (no detour through a double)
    nint = 0
    for _ in range(N(tier, 600, 10000)):
        kind = R.random()
        n = R.randrange(-50, 51) if kind < .2 else R.choice([1, -1]) * (2 ** R.choice([53, 54, 63, 64, 100, 1024, 1100]) + R.randrange(-3, 4)) if kind < .6 else R.choice([1, -1]) * R.randrange(10 ** 15, 10 ** R.choice([17, 30, 320]))
        k = R.randrange(0, 5); nint += 1
        rc.append(dict(text=f"{E(n)} {call('ㅂ', ['ㅂ', 'ㅅ', 'ㅂㄹ', 'ㄱㄴㄷㄹㅁ'[k]])} ㅎㄴ", trace=False)); rw.append(str(n))
    ra = impl_run(rc)
    badr = [dict(program=c["text"], impl=res(o)[:120], model="exact: " + w[:120], which=["rounding"]) for c, o, w in zip(rc, ra, rw) if res(o) != "V " + w]
    r.slice("roundings_vs_exact", len(rc), len({c["text"] for c in rc}), [rc[0]["text"]], dict(kinds="random mantissas, half-integers, >= 2^52, subnormal-range, small", integer_operands=nint), "five roundings of exactly constructed doubles and of integers up to 10^320 vs exact rational arithmetic", badr[:40])
    if model_ok:
        mo = vlib.driver("driver", dm)
        badm = [dict(program=l, impl="exact: " + w, model=o, which=["model-rounding"]) for l, o, w in zip(dm, mo, rw) if o != w]
        r.slice("model_roundings_vs_exact", len(dm), len(set(dm)), [dm[0]], dict(), "the model's Float.rounding (integer arithmetic on sign, mantissa, exponent) vs exact rational arithmetic", badm[:40])

# ------------------------------------------------------------------ C18
def shared_action_containers(r, seed, tier, model_ok):
    """ONE container object holding an I/O action, reached several times in the printed value: printing executes the action each time it is met
    (every occurrence reads its own line / writes again - once per OCCURRENCE, not once per object), and a container that was earlier named in a
    caught not-found message prints as ever"""
    if not model_ok: return
    Rc = random.Random(seed * 7919 + 0xC18 + 10)
    def nrm(f): f = list(f); f[0] = "V " + ",".join(str(ord(c)) for c in norm_dicts(decode_v(f[0])[2:])) if f[0].startswith("V ") else f[0]; return f
    sc = []
    ACTS = ["(ㄹㅎㄱ)", "(ㄴ ㅁㅈㅎㄴ ㅈㄹㅎㄴ)", "(ㄷ ㄱㅅㅎㄴ)", "((ㄹㅎㄱ) (ㄱㅇㄱ ㄱㅅㅎㄴ ㅎ) ㄱㄹㅎㄷ)", "((ㄹㅎㄱ) (ㄱㅇㄱ ㅈㄹㅎㄴ ㅎ) ㄱㄹㅎㄷ)"]
    for _ in range(N(tier, 150, 2000)):
        a_ = Rc.choice(ACTS); k = Rc.random()
        L = f"({a_} ㅁㄹㅎㄴ)" if k < .3 else f"({E(1)} {a_} ㅁㄹㅎㄷ)" if k < .45 else f"({a_} ㄷㅂㅎㄴ)" if k < .6 else f"({E(0)} {a_} ㅅㅈㅎㄷ)" if k < .75 else a_       # ... or the action itself, shared
        uses = " ".join(["ㄱㅇㄱ"] * Rc.choice([2, 2, 3])); m_ = len(uses.split()); shape = Rc.random()
        if shape < .4: t = f"{L} (({uses} ㅁㄹㅎ{E(m_)}) ㅎ) ㅎㄴ"
        elif shape < .5: t = f"{L} ((ㄱㅇㄱ ㄱㅇㄱ ㄷㅎㄷ) ㅎ) ㅎㄴ" if L != a_ and "ㅁㄹ" in L else f"{L} (({uses} ㄷㅂㅎ{E(m_)}) ㅎ) ㅎㄴ"                 # a list joined with itself / an exception value
        elif shape < .7: t = f"{L} ((ㄱㅇㄱ (ㄱㅇㄱ ㅁㄹㅎㄴ) ㅁㄹㅎㄷ) ㅎ) ㅎㄴ"
        elif shape < .85: t = f"{L} (((ㄱㅇㄱ (ㅅㅈㅎㄱ) ㅎㄴ) (ㄱ ㅎ) ㅅㄷㅎㄷ) ㄱㅇㄱ ㅁㄹㅎㄷ ㅎ) ㅎㄴ"          # first looked up in an empty dictionary (caught not-found, whose message shows the key), then printed
        else: t = f"{L} ((ㄱㅇㄱ ㄱㅇㄱ ㄴㅎㄷ) ㄱㅇㄱ ㅁㄹㅎㄷ ㅎ) ㅎㄴ"                                              # first compared with itself, then printed
        sc.append(dict(text=t, stdin=["a", "b", "c", "d"][:Rc.randrange(0, 5)], floats=True))
    sa = impl_run(sc); sb = model_run(sc, tlimit=10); dist3, bad4 = compare(sc, sa, sb, fields=("res", "out", "rest"), norm=nrm)
    r.slice("shared_containers_with_actions_vs_model", len(sc), len({c["text"] for c in sc}), [sc[0]["text"]], dict(outcomes=dict(dist3)), "one list / exception / dictionary holding an action (or the action itself), used 2-3 times in the printed value (or first in a caught failure / a comparison): result, output and input left vs the model", bad4)

def c18_print(r, seed, tier, model_ok):
    """integers up to 2^10000 and doubles: ㅁㅈ then ㅈㅅ / ㅅㅅ gives the same number; sequences print contents in order; every
    insertion order of a dictionary prints identically (all permutations of <= 5 keys, key kinds incl. tied printed keys)"""
    R = random.Random(seed * 7919 + 0xC18); cases = []; want = []; kinds = collections.Counter()
    for _ in range(N(tier, 1500, 30000)):
        v = R.choice([-1, 1]) * R.getrandbits(R.choice([1, 8, 64, 300, 4000, 10000, 20000]))
        cases.append(dict(text=f"({E(v)} ㅁㅈㅎㄴ) ㅈㅅㅎㄴ {E(v)} ㄴㅎㄷ", trace=False, tlimit=10)); want.append("V True"); kinds["int-reread"] += 1
    for _ in range(N(tier, 3000, 60000)):
        m = R.randrange(1, 2**53); e = R.choice([R.randrange(-1074, 971), R.randrange(-60, 10), 0]); s = R.choice([1, -1])
        c = R.random()
        if c < .15: m = 2 * R.randrange(2**30, 2**51) + 1; e = -R.randrange(1, 4)              # >= 1e9 with a fractional part
        elif c < .25: m = 2**52 + R.randrange(1, 2**20); e = -52                                # 1 + a few ulps
        elif c < .3: m = R.randrange(1, 10**6) * 2**20 + 1; e = -20                             # integer + 2^-20
        if e + m.bit_length() > 1023: continue
        parts = []; ee = e
        while ee != 0:
            st = max(-1000, min(1000, ee)); parts.append(f"(ㄷ ㅅㅅㅎㄴ {E(st)} ㅅㅎㄷ)"); ee -= st
        x = call("ㄱ", [f"({E(s * m)} ㅅㅅㅎㄴ)"] + parts)
        cases.append(dict(text=f"({x} ㅁㅈㅎㄴ) ㅅㅅㅎㄴ {x} ㄴㅎㄷ", trace=False)); want.append("V True"); kinds["float-reread"] += 1
        # the PRINTED form of the value (what main prints), read back by the host's float(): must be exactly the double that was built
        cases.append(dict(text=x, trace=False, floats=True)); want.append("V " + vlib.canon_float(float(Fraction(s * m) * Fraction(2) ** e))); kinds["float-print"] += 1
        if R.random() < .3: cases.append(dict(text=call("ㅁㄹ", [x, call("ㄷㅂ", [x])]), trace=False, floats=True)); want.append("V [{0}, <예외: [{0}]>]".format(vlib.canon_float(float(Fraction(s * m) * Fraction(2) ** e)))); kinds["float-print-nested"] += 1
    # values that the host considers equal but that must PRINT differently, printed together and one after the other (any print memo keyed by the
    # host's equality would merge them): the two zeros, in both orders, nested, as dictionary values and keys
    z, nz = "(ㄱ ㅅㅅㅎㄴ)", "((ㄱ ㅅㅅㅎㄴ) ㄴㄱ ㄱㅎㄷ)"
    for _ in range(N(tier, 6, 20)):
        for t, w in [(z, "0.0"), (nz, "-0.0"), (call("ㅁㄹ", [z, nz]), "[0.0, -0.0]"), (call("ㅁㄹ", [nz, z]), "[-0.0, 0.0]"), (call("ㄷㅂ", [nz, call("ㅁㄹ", [z])]), "<예외: [-0.0, [0.0]]>"),
                     (call("ㅅㅈ", [E(1), z, E(2), nz]), "{1: 0.0, 2: -0.0}"), (call("ㅅㅈ", [E(1), nz, E(2), z]), "{1: -0.0, 2: 0.0}"), (call("ㅁㄹ", [nz, nz, z, z, nz]), "[-0.0, -0.0, 0.0, 0.0, -0.0]"),
                     (f"({nz} ㅁㅈㅎㄴ)", "'-0.0'"), (f"({z} ㅁㅈㅎㄴ)", "'0.0'")]:
            cases.append(dict(text=t, trace=False, floats=False)); want.append("V " + w); kinds["signed-zeros"] += 1
    # dictionaries: all insertion orders
    KEYS = [E(0), E(1), E(-1), E(10), E(2), "(ㄹ ㅅㅅㅎㄴ)", "(ㅁ ㅅㅅㅎㄴ)", "(ㅈㅈㅎㄱ)", "(ㄱㅈㅎㄱ)", "(ㄴ ㅁㅈㅎㄴ)", "(ㅂㄱㅎㄱ)", "(ㄱ ㄴ ㅁㄹㅎㄷ)", "(ㄴ ㄷㅂㅎㄴ)", "(ㄱㅇㄱ ㅎ)", "(ㄴ ㅎ)", "(ㄱ ㅎ)"]
    groups = []
    for _ in range(N(tier, 150, 3000)):
        ks = R.sample(KEYS, R.randrange(2, 6 if tier != "quick" else 5)); vs = [E(R.randrange(0, 9)) for _ in ks]
        perms = list(itertools.permutations(range(len(ks))))
        if len(perms) > 24: perms = R.sample(perms, 24)
        g = []
        for p in perms:
            g.append(len(cases)); cases.append(dict(text=call("ㅅㅈ", [x for i in p for x in (ks[i], vs[i])]), trace=False)); want.append(None); kinds["dict-order"] += 1
        groups.append(g)
    a = impl_run(cases); bad = []
    for c, o, w in zip(cases, a, want):
        if w is not None and res(o) != w: bad.append(dict(program=c["text"][:300], impl=res(o)[:200], model="V True (printed form reads back to the same number)", which=["reread"]))
    for g in groups:
        outs = {res(a[i]) for i in g}
        if len(outs) > 1: bad.append(dict(program=cases[g[0]]["text"], impl=" / ".join(sorted(outs))[:400], model="one printed form for every insertion order", which=["dict-print-order"]))
    r.slice("print_reread_and_dict_order", len(cases), len({c["text"] for c in cases}), [cases[0]["text"][:200], cases[-1]["text"]], dict(kinds),
            "ㅁㅈ then ㅈㅅ / ㅅㅅ on integers up to 20000 bits and exactly built doubles; every permutation (<= 24) of 2-5 dictionary entries over 16 key kinds incl. functions whose prints tie", bad[:40])
    if model_ok:
        # the extracted model prints integers with Coq's binary positives: keep its share to integers below ~1500 bits
        ic = [c for c, w in zip(cases, want) if (w is None or "ㅈㅅㅎㄴ" in c["text"]) and len(c["text"]) < 1200][:4000]
        ic2 = [dict(c, floats=True) for c in ic]
        ia2 = impl_run(ic2)
        b = model_run(ic2, tlimit=10)
        def nrm(f): f = list(f); f[0] = "V " + ",".join(str(ord(ch)) for ch in norm_dicts(decode_v(f[0])[2:])) if f[0].startswith("V ") else f[0]; return f
        dist, bad2 = compare(ic2, ia2, b, fields=("res",), norm=nrm)
        r.slice("printing_vs_model", len(ic2), len({c["text"] for c in ic2}), [ic2[-1]["text"]], dict(outcomes=dict(dist)), "integer re-read and dictionary printing programs vs the extracted model's formatter", bad2)
        # reals as TEXT, both directions, vs FloatText.v (repr_float: the shortest digits that read back, CPython's layout; parse_float_text: the
        # double nearest to the decimal): exactly built doubles printed (alone, nested, as ㅁㅈ strings), and decimal texts of every shape read by ㅅㅅ
        from slices_world import st as strlit
        fcs = [dict(c, floats=False) for c, w in zip(cases, want) if w is not None and "ㅈㅅㅎㄴ" not in c["text"] and "ㅅㅅㅎㄴ" in c["text"]][:N(tier, 500, 6000)]
        Rf = random.Random(seed * 7919 + 0xC18 + 33); txts = []
        for _ in range(N(tier, 400, 6000)):
            x = Rf.choice([1, -1]) * Rf.randrange(1, 2**53) * 2.0 ** Rf.choice([Rf.randrange(-1074, 960), Rf.randrange(-70, 20), -52, 0]); k = Rf.random()
            if x in (math.inf, -math.inf): continue
            t_ = repr(x) if k < .25 else f"{x:.{Rf.randrange(0, 25)}e}" if k < .5 else (f"{x:.{Rf.randrange(0, 30)}f}" if 1e-30 < abs(x) < 1e40 else repr(x)) if k < .65 else \
                 "  " + repr(x).upper() + "\n" if k < .72 else repr(x).replace("e", "E") if k < .78 else repr(x)[:-1] + str(Rf.randrange(10)) * Rf.randrange(1, 30) if k < .9 else repr(x) + Rf.choice(["e", "e+", ".", "x", " 1", "e1.5", "_1", "f"])
            txts.append(t_)
        txts += ["inf", "-Infinity", "nan", "+NaN", "1e400", "-1e-400", "1e99999999999999999999", "1e-99999999999999999999", "0.0", "-0", ".5", "5.", "1.e3", ".", "e5", "1e", "--1", "1 2", "0x10", "", "  ", "00012.500",
                 "2.4703282292062327208e-324", "2.4703282292062327209e-324", "1" + "0" * 400, "0." + "0" * 400 + "1", "9007199254740993", "9007199254740992.5", "9007199254740994.50000000000000000000001",
                 "1.7976931348623158e308", "1.797693134862315807e308", "1.797693134862315808e308", "infinit", "nan1", "-.e1", "-.5e-0", "+.5", "1e+05", "1E-05"]
        for t_ in txts:
            k = Rf.random(); rd = f"({strlit(t_)} ㅅㅅㅎㄴ)"
            fcs.append(dict(text=rd if k < .5 else f"({strlit(t_)} {E(10)} ㅅㅅㅎㄷ)" if k < .6 else f"{rd} ㅁㅈㅎㄴ" if k < .8 else f"{rd} ((ㄱㅇㄱ) ㅎ) ㅅㄷㅎㄷ", trace=False, floats=False))
        fa = impl_run(fcs); fb = model_run(fcs, tlimit=20); fdist, fbad = compare(fcs, fa, fb, fields=("res",))
        r.slice("real_text_vs_model", len(fcs), len({c["text"] for c in fcs}), [fcs[0]["text"], fcs[-1]["text"]], dict(outcomes=dict(fdist), read_texts=len(txts)),
                "printed reals (exactly built doubles, alone / nested / as strings) and decimal texts read by ㅅㅅ (every layout, long digit strings, half-way cases, subnormals, overflow, malformed) vs FloatText.repr_float / parse_float_text", fbad)
        # complex numbers: each part prints as an INTEGER when it is close to one (math.isclose with relative tolerance 1e-9, absolute 1e-16), a zero
        # real part is left out, an imaginary part of magnitude 1 prints as "i" - parts built exactly as m * 2^-k: near integers on both sides of
        # either tolerance, halves, huge values, both zeros, infinities; alone, in lists and as dictionary keys
        Rc = random.Random(seed * 7919 + 0xC18 + 9)
        def part():
            k = Rc.random()
            if k < .2: return E(Rc.choice([0, 1, -1, 2, -7, 10**6, 2**53 + 1, -2**60]))
            if k < .3: return f"({E(Rc.choice([0, 1, -1, 3]))} ㅅㅅㅎㄴ)"
            if k < .4: return f"(({E(0)} ㅅㅅㅎㄴ) {E(-1)} ㄱㅎㄷ)"                                             # -0.0
            if k < .5: return Rc.choice(["(ㅂ ㅅ ㅁ ㅂㅎㄹ)", "((ㅂ ㅅ ㅁ ㅂㅎㄹ) ㄴㄱ ㄱㅎㄷ)"])                  # +inf, -inf
            if k < .65:          # AT the tolerances and a hair on either side (the doubles nearest the decimal texts, read by ㅅㅅ): |x - int(x)| against
                from slices_world import st          # exactly 1e-16, and against 1e-9 times the larger of |x| and |int(x)|
                sg = Rc.choice([1, -1]); d_ = Rc.choice([0, 0, 1e-15, -1e-15, 1e-6, -1e-6, 1e-4, -1e-4, 2e-4, -2e-4, 4e-4, -4e-4, 1e-3, -1e-3])
                if Rc.random() < .5: x_ = sg * 1e-16 * (1 + d_)
                else: n_ = Rc.choice([1, 3, 1000, 2**31, 10**9 + 7, 2**40]); x_ = sg * n_ * (1 + Rc.choice([1, -1]) * 1e-9 * (1 + d_))
                return f"({st(repr(x_))} ㅅㅅㅎㄴ)"
            big = Rc.choice([1, 3, 2**20, 2**31, 2**40, 10**9, 2**52]); j = Rc.choice([1, 2, 20, 29, 30, 31, 40, 52, 53, 54, 60, 70])
            m = big * 2**j + Rc.choice([1, -1]); m = m if m.bit_length() <= 53 else Rc.choice([1, -1, 3])             # m * 2^-j exact in a double
            return f"(({E(Rc.choice([1, -1]) * m)} ㅅㅅㅎㄴ) (({E(2)} ㅅㅅㅎㄴ) {E(-j)} ㅅㅎㄷ) ㄱㅎㄷ)"
        cc = []
        for _ in range(N(tier, 600, 8000)):
            z = f"({part()} {part()} ㅂㅅㅎㄷ)"; k = Rc.random()
            cc.append(dict(text=z if k < .6 else f"{z} {part()} ㅁㄹㅎㄷ" if k < .8 else f"{z} {E(1)} ㅅㅈㅎㄷ", floats=True, trace=False))
        ca = impl_run(cc); cb = model_run(cc, tlimit=10); dist2, bad3 = compare(cc, ca, cb, fields=("res",), norm=nrm)
        shared_action_containers(r, seed, tier, model_ok)
        r.slice("complex_printing_vs_model", len(cc), len({c["text"] for c in cc}), [cc[0]["text"]], dict(outcomes=dict(dist2)), "complex numbers with parts on both sides of the print tolerances, zeros of both signs, infinities, huge values: printed form vs Float.show_complex", bad3)

def c18_cli(r, seed, tier, model_ok):
    """cli.run: exit status = integer result (0 for the empty value), a top-level function is applied to the argument strings, a resulting
    action is executed before the status is known, any other kind / more than one expression is an error; a sample through a real process"""
    parse, interpret, AS, M = mods()
    if vlib.REPO not in sys.path: sys.path.insert(0, vlib.REPO)
    from pbhhg_py import cli
    import inspect
    R = random.Random(seed * 7919 + 0xC18 + 1); bad = []; cnt = collections.Counter(); n = 0
    def run(text, argv=()):
        old = sys.stdin, sys.stdout, sys.stderr; sys.stdin = io.StringIO("l1\nl2\n"); sys.stdout = out = io.StringIO(); sys.stderr = err = io.StringIO()
        try:
            try: rv = ("RET", cli.run("<t>", text, list(argv)))
            except SystemExit as e: rv = ("EXIT", e.code)
            except AS.UnsuspectedHangeulError as e: rv = ("LANGERR", ",".join(str(v.value) if isinstance(v, AS.Integer) else "?" for v in e.err.value))
            except BaseException as e: rv = ("HOST", vlib.host_site(e))
        finally: sys.stdin, sys.stdout, sys.stderr = old
        return rv, out.getvalue(), err.getvalue()
    progs = []
    for _ in range(N(tier, 300, 5000)):
        v = R.choice([0, 1, 2, 7, 255, 256, -1, 1000]); k = R.random()
        if k < .2: progs.append((E(v), (), ("status", v), "integer"))
        elif k < .3: progs.append(("ㅂㄱㅎㄱ", (), ("status", 0), "nil"))
        elif k < .4: progs.append(("", (), ("status", 0), "empty"))
        elif k < .5: progs.append((f"{E(v)} {E(v)}", (), ("error",), "two-expressions"))
        elif k < .6: progs.append((R.choice(["ㅈㅈㅎㄱ", "ㄱ ㅁㅈㅎㄴ", "ㄱ ㄴ ㅁㄹㅎㄷ", "ㄴ ㅅㅅㅎㄴ"]), (), ("error",), "other-kind"))
        elif k < .75:
            args = [R.choice(["", "", "a", "bc", " ", "0", "한글", "x y", "-c", "--"]) for _ in range(R.randrange(0, 5))]
            if args: i = R.randrange(len(args)); progs.append((f"{E(i)}ㅇㄱ ㅈㄷㅎㄴ ㅎ", tuple(args), ("status", len(args[i])), "function"))      # length of the i-th argument string
            else: progs.append((f"{E(v)} ㅎ", (), ("status", v), "function"))
        elif k < .82:      # top-level functions that are not literal definitions: spread (any number of arguments), pipe
            args = [R.choice(["", "a", "bc", "한글"]) for _ in range(R.randrange(0, 5))]
            c = R.random()
            if c < .4: progs.append(("ㅈㄷ ㅂㅂㅎㄴ", tuple(args), ("status", len(args)), "spread-function"))
            elif c < .7: progs.append(("(ㄱㅇㄱ ㅈㄷㅎㄴ ㅎ) ㅂㅂㅎㄴ", tuple(args), ("status", len(args)), "spread-function"))
            else: a0 = R.choice(["", "a", "bcd"]); progs.append((f"(ㄱㅇㄱ ㅈㄷㅎㄴ ㅎ) (ㄱㅇㄱ {E(v % 7)} ㄷㅎㄷ ㅎ) ㄴㄱㅎㄷ", (a0,), ("status", len(a0) + v % 7), "pipe-function"))
        elif k < .9: progs.append((f"({E(v)} ㅁㅈㅎㄴ ㅈㄹㅎㄴ) ({E(v)} ㄱㅅㅎㄴ ㅎ) ㄱㄹㅎㄷ", (), ("status+out", v, f"{v}\n"), "io"))
        else: progs.append((f"(ㄹㅎㄱ) ((ㄱㅇㄱ ㅈㄷㅎㄴ) ㄱㅅㅎㄴ ㅎ) ㄱㄹㅎㄷ", (), ("status", 2), "io-read"))
    for text, argv, want, kind in progs:
        rv, out, err = run(text, argv); n += 1; cnt[kind + ":" + rv[0]] += 1
        if rv[0] == "HOST": bad.append(dict(program=text, impl=str(rv), model=str(want), which=["cli"])); continue
        if want[0] == "error":
            if rv[0] == "RET" and rv[1] == 0: bad.append(dict(program=text, impl=str(rv), model="reported as an error", which=["cli"]))
        else:
            ok = rv[0] in ("RET", "EXIT") and rv[1] == want[1]
            if want[0] == "status+out": ok = ok and out == want[2]
            if not ok: bad.append(dict(program=text, impl=f"{rv} out={out!r}", model=str(want), which=["cli"]))
    # the same front end in the model (Cli.cli_run, about which Props/Prop_C18.v proves exit_status_is_an_integer, cli_stages ...): generated
    # programs of every result kind x argument vectors x stdin - status / error class, bytes written and input left must agree
    if model_ok:
        import slices_core
        mc = [(t, a) for t, a, _, _ in progs]
        for _ in range(N(tier, 400, 6000)):
            k = R.random(); args = tuple(R.choice(["", "a", "bc", "한글", "7", " "]) for _ in range(R.randrange(0, 4)))
            if k < .35: t = slices_core.io_text_closed(R, R.randrange(1, 4))[0]
            elif k < .7: t = " ".join(G.words(G.G(R).gen(R.choice([G.INT, G.INT, G.BOOL, G.STR, G.LIST(G.INT), G.FUN([G.INT], G.INT)]), [], R.randrange(2, 14))))
            elif k < .85: t = R.choice([f"{E(R.randrange(0, 3))}ㅇㄱ ㅈㄷㅎㄴ ㅎ", "ㄱㅇㄱ ㅈㄹㅎㄴ ㅎ", "ㄱㅇㄱ ㅎ", "ㄱㅇㄱ ㄴㅇㄱ ㄷㅎㄷ ㅈㄷㅎㄴ ㅎ", "(ㄱㅇㄱ ㅈㄹㅎㄴ) ((ㄴㅇㄴ ㅈㄷㅎㄴ) ㄱㅅㅎㄴ ㅎ) ㄱㄹㅎㄷ ㅎ", "ㅈㄷ ㅂㅂㅎㄴ", "(ㄹㅎㄱ) ㅎ", "ㄷㅈ", "(ㄱ ㄷㅂㅎㄴ ㄷㅈㅎㄴ) ㅎ"])
            else: t = " ".join(R.choice([E(R.randrange(-2, 300)), "ㅂㄱㅎㄱ", "ㄱ ㅎ"]) for _ in range(R.randrange(0, 4)))
            mc.append((t, args))
        lines = ["CLI\t" + "|".join(vlib.cps(l) for l in ("l1", "l2")) + "\t" + (";".join(vlib.cps(a) for a in argv) if argv else "-") + "\t" + vlib.cps(t) for t, argv in mc]
        mo = vlib.driver("driver", lines); cmp_ = collections.Counter(); badm = []
        for (t, argv), m in zip(mc, mo):
            rv, out, _ = run(t, argv)
            if m in ("UNMODELLED", "FUEL", "V?") or m.startswith("FUEL") or m.startswith("SYNTAX"): cmp_["skipped:" + m.split()[0]] += 1; continue
            mres, mout, mrest = m.split("\t")
            ores = f"S {rv[1]}" if rv[0] in ("RET", "EXIT") else f"E {rv[1]}" if rv[0] == "LANGERR" else str(rv)
            oout = "OUT " + ",".join(str(ord(c)) for c in out)
            cmp_[ores.split()[0]] += 1
            if ores != mres or oout != mout: badm.append(dict(program=t, argv=list(argv), impl=f"{ores} {oout}"[:300], model=f"{mres} {mout}"[:300], which=["cli-vs-model"]))
        r.slice("cli_run_vs_model", len(mc), len({(t, a) for t, a in mc}), [mc[0][0], mc[-1][0]], dict(cmp_), "cli.run in-process vs Cli.cli_run of the model: exit status or error class + bytes written, on the oracle programs and on generated programs of every result kind x 0-3 argument strings", badm[:40])
    # real processes: the OS keeps status mod 256
    for v in [0, 3, 255, 256, 257][:N(tier, 3, 5)]:
        p = subprocess.run([vlib.PY, "-m", "pbhhg_py.cli", "-c", E(v)], cwd=vlib.REPO, capture_output=True, text=True, env=dict(os.environ, PYTHONPATH=vlib.REPO)); n += 1; cnt["process"] += 1
        if p.returncode != v % 256: bad.append(dict(program=f"python -m pbhhg_py.cli -c '{E(v)}'", impl=f"exit {p.returncode} stderr={p.stderr[-200:]}", model=f"exit {v % 256}", which=["exit-status"]))
    p = subprocess.run([vlib.PY, "-m", "pbhhg_py.cli", "-c", "ㄴㅇㄱ ㅈㄷㅎㄴ ㅎ", "ab", "", "cde"], cwd=vlib.REPO, capture_output=True, text=True, env=dict(os.environ, PYTHONPATH=vlib.REPO)); n += 1
    if p.returncode != 0: bad.append(dict(program="python -m pbhhg_py.cli -c 'ㄴㅇㄱ ㅈㄷㅎㄴ ㅎ' ab '' cde", impl=f"exit {p.returncode} stderr={p.stderr[-200:]}", model="exit 0 (length of the second argument, the empty string)", which=["exit-status"]))
    r.slice("cli_run", n, len({p[0] + str(p[1]) for p in progs}), [progs[0][0]], dict(cnt), "cli.run in-process on generated single-expression programs x argument vectors + real processes", bad[:40])

# ------------------------------------------------------------------ C02: calling values that are not functions
def c02_function_values(r, seed, tier, model_ok):
    """function VALUES built by ㄴㄱ (pipe), ㅁㅂ (collect) and ㅂㅂ (spread): pipes of 0-4 stages called with 0-3 arguments, the stages of every
    callable kind (closures reading argument 0 / 1 / their argument count, arity-checked and variadic built-ins, lists, Booleans, dictionaries,
    collected / spread functions, nested pipes): only the FIRST stage sees the call's arguments, every later stage gets exactly one - the result
    before it; collect hands its function ONE list of all arguments, spread hands the elements of its one list argument as separate arguments.
    Against the model (CallRules.call_pipe / pipe_spec / call_collect_list / call_spread): result and complete event trace."""
    if not model_ok: return
    R = random.Random(seed * 7919 + 0xC02 + 13); cases = []; shapes = collections.Counter()
    STAGES = ["(ㄱㅇㄱ ㅎ)", "(ㄴㅇㄱ ㅎ)", "(ㄱㅇㄱ ㄴㅇㄱ ㄷㅎㄷ ㅎ)", "(ㄱㅇㄱ ㄴ ㄷㅎㄷ ㅎ)", "ㅁㄹ", "ㅁㅈ", "ㄷ", "ㄱ", "ㅈㄷ", "ㄷㅂ", "ㅂㄱ", f"({E(5)} {E(6)} {E(7)} {E(4)} ㅁㄹㅎㅁ)", "(ㅈㅈㅎㄱ)", "(ㄱㅈㅎㄱ)",
              f"({E(0)} {E(3)} {E(1)} {E(9)} ㅅㅈㅎㅁ)", "(ㄷ ㅁㅂㅎㄴ)", "(ㅁㄹ ㅁㅂㅎㄴ)", "(ㅈㄷ ㅁㅂㅎㄴ)", "(ㄷ ㅂㅂㅎㄴ)", "((ㄱㅇㄱ ㄴㅇㄱ ㅁㄹㅎㄷ ㅎ) ㅂㅂㅎㄴ)", "(ㅁㄹ (ㄱㅇㄱ ㅈㄷㅎㄴ ㅎ) ㄴㄱㅎㄷ)", "((ㄱㅇㄱ ㅎ) ㄴㄱㅎㄴ)", "(ㄴㄱㅎㄱ)",
              "(ㄱㅇㄱ ㄱㅇㄱ ㅁㄹㅎㄷ ㅎ)", "(ㄴ ㄱ ㄴㄴㅎㄷ ㅎ)"]
    ARGS = [E(0), E(1), E(2), E(-1), f"({E(3)} {E(4)} ㅁㄹㅎㄷ)", "(ㅁㄹㅎㄱ)", "(ㄴ ㄱ ㄴㄴㅎㄷ)", f"({E(1)} {E(2)} {E(3)} ㅁㄹㅎㄹ)", "(ㅈㅈㅎㄱ)"]
    for _ in range(N(tier, 1500, 20000)):
        k = R.random(); na = R.randrange(0, 4); args = [R.choice(ARGS) for _ in range(na)]
        if k < .7: ns = R.randrange(0, 5); f = "(" + " ".join(R.choice(STAGES) for _ in range(ns)) + (" " if ns else "") + f"ㄴㄱㅎ{E(ns)})"; sh = f"pipe:{ns}x{na}"
        elif k < .85: f = f"({R.choice(STAGES)} ㅁㅂㅎㄴ)"; sh = f"collect:{na}"
        else: f = f"({R.choice(STAGES)} ㅂㅂㅎㄴ)"; sh = f"spread:{na}"
        t = " ".join(args) + (" " if args else "") + f"{f} ㅎ{E(na)}"
        if R.random() < .2: t = f"({t}) ((ㄱ ㄱㅇㄱ ㅎㄴ) ㅎ) ㅅㄷㅎㄷ"
        cases.append(dict(text=t)); shapes[sh.split("x")[0]] += 1
    a = impl_run(cases); b = model_run(cases, tlimit=10); dist, bad = compare(cases, a, b)
    r.slice("function_values_vs_model", len(cases), len({c["text"] for c in cases}), [cases[0]["text"], cases[1]["text"]], dict(outcomes=dict(dist), shapes=dict(shapes)),
            "pipes of 0-4 stages x 0-3 arguments over 25 stage kinds, collected and spread functions: result and complete event trace vs the model", bad)

def c02_callables(r, seed, tier, model_ok):
    """calling a Boolean, list, string, byte string, exception, dictionary or complex number: EVERY index in -len-3 .. len+2 (and wrong arities /
    argument kinds) against the documented selection / indexing rule computed independently in the harness; the modelled kinds also vs the model"""
    R = random.Random(seed * 7919 + 0xC02 + 7); cases = []; want = []; kinds = collections.Counter()
    def fmtb(bs): return "b'" + "".join(f"\\x{x:02X}" for x in bs) + "'"
    def bytes_lit(bs): return f"({E(int.from_bytes(bs, 'little'))} ㄴ {E(len(bs))} ㅂ ㅂ ㅂㅎㄷ ㅎㄷ ㅎㄴ)" if bs else "(ㄱ ㄴ ㄱ ㅂ ㅂ ㅂㅎㄷ ㅎㄷ ㅎㄴ)"
    def str_lit(s): return f"({bytes_lit(s.encode('utf-32-le'))} ㄱ ㅁ ㄱㅈㅎㄱ ㅂ ㅂ ㅂㅎㄷ ㅎㄹ ㅎㄴ)" if s else "(ㅁㅈㅎㄱ)"
    def add(text, w, kind): cases.append(dict(text=text, trace=False)); want.append(w); kinds[kind] += 1
    for _ in range(N(tier, 40, 400)):
        ln = R.randrange(0, 6); xs = [R.randrange(-9, 10) for _ in range(ln)]
        s = "".join(chr(R.choice([0x41, 0x62, 0xAC00, 0x1F600, 0x31])) for _ in range(ln)); bs = bytes(R.randrange(256) for _ in range(ln))
        for i in range(-ln - 3, ln + 3):
            ok = -ln <= i < ln
            add(f"{E(i)} {call('ㅁㄹ', [E(x) for x in xs])} ㅎㄴ", f"V {xs[i]}" if ok else "E 5,-5", "list")
            add(f"{E(i)} {call('ㄷㅂ', [E(x) for x in xs])} ㅎㄴ", f"V {xs[i]}" if ok else "E 5,-5", "exception")
            add(f"{E(i)} {str_lit(s)} ㅎㄴ", f"V '{s[i]}'" if ok else "E 5,-5", "string")
            add(f"{E(i)} {bytes_lit(bs)} ㅎㄴ", f"V {fmtb(bs[i:i + 1] if i >= 0 else bs[ln + i:ln + i + 1])}" if ok else "E 5,-5", "bytes")
        ks = R.sample(range(-4, 5), R.randrange(0, 5)); vs = [R.randrange(0, 9) for _ in ks]
        d = call("ㅅㅈ", [y for k, v in zip(ks, vs) for y in (E(k), E(v))])
        for k in range(-5, 6): add(f"{E(k)} {d} ㅎㄴ", f"V {vs[ks.index(k)]}" if k in ks else "E 5,-60", "dictionary")
        a, b = R.randrange(-5, 6), R.randrange(-5, 6); cx = f"({E(a)} {E(b)} ㅂㅅㅎㄷ)"
        for i in (-1, 0, 1, 2): add(f"{E(i)} {cx} ㅎㄴ", "V " + vlib.canon_float(float(a if i == 0 else b)) if i in (0, 1) else "E 5,-39", "complex")
        x, y = E(R.randrange(0, 9)), E(R.randrange(0, 9)); t = R.random() < .5; bl = "(ㅈㅈㅎㄱ)" if t else "(ㄱㅈㅎㄱ)"
        add(f"{x} {y} {bl} ㅎㄷ", f"V {G_dec(x) if t else G_dec(y)}", "boolean")
        add(f"{x} {bl} ㅎㄴ", "E 5,-39", "boolean-arity"); add(f"{x} {y} {x} {bl} ㅎㄹ", "E 5,-39", "boolean-arity")
        for callee in (call("ㅁㄹ", [E(1), E(2)]), str_lit("ab"), cx):
            add(f"(ㄴ ㅁㅈㅎㄴ) {callee} ㅎㄴ", "E 5,0", "index-not-integer"); add(f"ㄱ ㄴ {callee} ㅎㄷ", "E 5,-39", "index-arity")
    # the same rules for sequences that come OUT of an operation rather than from a constructor: the list a spread function (ㅂㅂ) builds from its
    # arguments, results of concatenation / slicing / map / filter / split, a list taken out of a list or returned by a function, a pipe stage
    for _ in range(N(tier, 25, 250)):
        ln = R.randrange(1, 5); xs = [R.randrange(-9, 10) for _ in range(ln)]; els = " ".join(E(x) for x in xs); lit = call("ㅁㄹ", [E(x) for x in xs])
        prod = {"spread-argument-list": lambda i: f"{els} (({E(i)} ㄱㅇㄱ ㅎㄴ ㅎ) ㅂㅂㅎㄴ) ㅎ{E(ln)}",
                "spread-list-returned": lambda i: f"{E(i)} ({els} ((ㄱㅇㄱ ㅎ) ㅂㅂㅎㄴ) ㅎ{E(ln)}) ㅎㄴ",
                "spread-list-stored": lambda i: f"{E(i)} (ㄱ (({els} ((ㄱㅇㄱ ㅎ) ㅂㅂㅎㄴ) ㅎ{E(ln)}) ㄴ ㅁㄹㅎㄷ) ㅎㄴ) ㅎㄴ",
                "spread-list-as-pipe-stage": lambda i: f"{E(i)} (({els} ((ㄱㅇㄱ ㅎ) ㅂㅂㅎㄴ) ㅎ{E(ln)}) (ㄱㅇㄱ ㅎ) ㄴㄱㅎㄷ) ㅎㄴ",
                "concatenation": lambda i: f"{E(i)} ({lit} (ㅁㄹㅎㄱ) ㄷㅎㄷ) ㅎㄴ", "slice": lambda i: f"{E(i)} ({lit} ㄱ ㅂㅈㅎㄷ) ㅎㄴ",
                "map": lambda i: f"{E(i)} ({lit} (ㄱㅇㄱ ㅎ) ㅁㄷㅎㄷ) ㅎㄴ", "filter": lambda i: f"{E(i)} ({lit} (ㅈㅈㅎㄱ ㅎ) ㅅㅂㅎㄷ) ㅎㄴ",
                "returned-by-function": lambda i: f"{E(i)} ({lit} (ㄱㅇㄱ ㅎ) ㅎㄴ) ㅎㄴ", "element-of-list": lambda i: f"{E(i)} (ㄱ ({lit} ㅁㄹㅎㄴ) ㅎㄴ) ㅎㄴ",
                "collect-then-spread": lambda i: f"{lit} ((({E(i)} ㄱㅇㄱ ㅎㄴ ㅎ) ㅂㅂㅎㄴ) ㅁㅂㅎㄴ) ㅎㄴ"}
        for nm, f in prod.items():
            for i in range(-ln - 2, ln + 2): add(f(i), f"V {xs[i]}" if -ln <= i < ln else "E 5,-5", "called-" + nm)
    # only an integer LITERAL written in a function position names a built-in; an integer that ARRIVES there - through an argument reference, one or
    # two functions deep, or computed - is an integer and cannot be called (type error), whatever slot of whatever higher-order built-in it reaches
    SLOTS = {"pipe": lambda f: f"ㄹ ㅁ ({f} ㄴㄱㅎㄴ) ㅎㄷ", "pipe-2": lambda f: f"ㄹ ㅁ ({f} (ㄱㅇㄱ ㅎ) ㄴㄱㅎㄷ) ㅎㄷ", "collect": lambda f: f"(ㄹ ㅁ ㅁㄹㅎㄷ) ({f} ㅁㅂㅎㄴ) ㅎㄴ",
             "spread": lambda f: f"ㄹ ㅁ ({f} ㅂㅂㅎㄴ) ㅎㄷ", "map": lambda f: f"(ㄹ ㅁ ㅁㄹㅎㄷ) {f} ㅁㄷㅎㄷ", "filter": lambda f: f"(ㄹ ㅁ ㅁㄹㅎㄷ) {f} ㅅㅂㅎㄷ",
             "fold": lambda f: f"{f} ㄱ (ㄹ ㅁ ㅁㄹㅎㄷ) ㅅㄹㅎㄹ", "try-handler": lambda f: f"(ㄱ ㄷㅂㅎㄴ ㄷㅈㅎㄴ) {f} ㅅㄷㅎㄷ", "bind-continuation": lambda f: f"(ㄹ ㄱㅅㅎㄴ) {f} ㄱㄹㅎㄷ",
             "call": lambda f: f"ㄹ ㅁ {f} ㅎㄷ"}
    for nm, slot in SLOTS.items():
        for lit in ("ㄷ", "ㄱ", "ㅁㄹ", "ㅈㄷ"):          # built-in names: add, multiply, list, length
            direct = slot(lit); r0 = vlib.impl_run([dict(text=direct, trace=False)])[0]
            for via, prog in (("argument", f"{lit} ({slot('ㄱㅇㄱ')} ㅎ) ㅎㄴ"), ("outer-argument", f"{lit} (({slot('ㄱㅇㄴ')} ㅎ) ㅎㄱ ㅎ) ㅎㄴ"),
                              ("forwarded-twice", f"{lit} (ㄱㅇㄱ ({slot('ㄱㅇㄱ')} ㅎ) ㅎㄴ ㅎ) ㅎㄴ"), ("computed", slot(f"({lit} ㄱ ㄷㅎㄷ)"))):
                add(prog, "E 5,0", f"integer-in-function-slot-{nm}-{via}")

    # as an argument of a user function / Boolean / built-in, inside an inner function (outer arguments), and used twice by the callee
    for k in range(0, 4):
        for _ in range(N(tier, 3, 12)):
            av = R.sample(range(10, 60), k); args = " ".join(E(x) for x in av)
            for pp in range(-k - 2, k + 2):
                okp = 0 <= pp < k; w = f"V {av[pp]}" if okp else "E 5,-5"
                for P, pk in ((E(pp), "literal"), (f"({E(pp - 1)} ㄴ ㄷㅎㄷ)", "computed")):
                    def fn(body): return f"{args} ({body} ㅎ) ㅎ{E(k)}".strip()
                    add(fn(f"{P} ㅇㄱ"), w, f"argref-body-{pk}")
                    add(fn(f"({P} ㅇㄱ) (ㄱ ㅇㄱ ㅎ) ㅎㄴ"), w, f"argref-as-argument-{pk}")
                    add(fn(f"({P} ㅇㄱ) ㄱ (ㅈㅈㅎㄱ) ㅎㄷ"), w, f"argref-to-boolean-{pk}")
                    add(fn(f"({P} ㅇㄱ) ㄱ ㄷㅎㄷ"), w, f"argref-to-builtin-{pk}")
                    add(fn(f"({P} ㅇㄴ ㅎ) ㅎㄱ"), w, f"argref-outer-{pk}")
                    add(fn(f"({P} ㅇㄱ) (ㄱ ㅇㄱ ㄱ ㅇㄱ ㄷㅎㄷ ㅎ) ㅎㄴ"), (f"V {2 * av[pp]}" if okp else "E 5,-5"), f"argref-used-twice-{pk}")
    a = impl_run(cases)
    bad = [dict(program=c["text"], impl=res(o)[:120], model="documented rule: " + w, which=["call-rule"]) for c, o, w in zip(cases, a, want)
           if not (res(o) == w or (w.startswith("E ") and res(o).split(" @")[0] == w))]
    r.slice("calling_non_functions", len(cases), len({c["text"] for c in cases}), [cases[0]["text"], cases[-1]["text"]], dict(kinds),
            "Boolean / list / string / bytes / exception / dictionary / complex called with every index in -len-3..len+2, wrong arities and argument kinds; argument references at every position -k-2..k+1 of a k-argument function in 6 contexts; vs the documented rule", bad[:40])
    if model_ok:
        mc = cases; ma = a
        b = model_run(mc); dist, bad2 = compare(mc, ma, b, fields=("res",))
        r.slice("calling_non_functions_vs_model", len(mc), len({c["text"] for c in mc}), [mc[1]["text"]], dict(outcomes=dict(dist)), "the same calls (complex numbers included) vs the model", bad2)
def G_dec(w):
    T = "ㄱㄴㄷㄹㅁㅂㅅㅈ"; v = sum(T.index(c) * 8 ** i for i, c in enumerate(w)); return -v if len(w) % 2 == 0 else v
