"""Directed slices for laziness and exceptions: bombs in non-strict positions (C03), faults planted in strict positions at any
depth of nested data under try / re-throw (C10), I/O actions shared between bind positions (C07)."""
import random, collections
import vlib, progen as G
from vlib import impl_run, model_run, compare, decode_v
from slices_core import N
E = G.enc
def call(f, args): return (" ".join(args) + " " if args else "") + f + "ㅎ" + E(len(args))
def out_of(o): f = o.split("\t"); return (decode_v(f[0]).split(" @")[0], f[1], f[2])

# ------------------------------------------------------------------ C03
BOMBS = {
    "throw": "(ㄴ ㄷㅂㅎㄴ ㄷㅈㅎㄴ)",                         # raises a user exception
    "type-error": "(ㄴ (ㄱ ㅁㅈㅎㄴ) ㄷㅎㄷ)",                  # ill-typed call
    "division": "(ㄴ ㄱ ㄴㄴㅎㄷ)",
    "diverge": "((ㄱㅇ ㅎㄱ ㄴ ㄷㅎㄷ ㅎ) ㅎㄱ)",               # f() = f() + 1 : non-tail recursion past the frame limit
    "print": "((ㄴ ㅁㅈㅎㄴ ㅈㄹㅎㄴ) (ㄱ ㄱㅅㅎㄴ ㅎ) ㄱㄹㅎㄷ)",    # an action: must be neither built into the result nor executed
}
def c03_bombs(r, seed, tier, model_ok):
    """programs with a MARKED non-strict position (unused argument, unselected Boolean branch, operands after the deciding one of Boolean
    ㄱ / ㄷ with 2..5 operands, list elements / dictionary values never inspected, handler of a try that does not fail) x bomb payloads
    (throw, type error, division by zero, divergence past the frame limit, printing action): result, stdout and unread stdin must equal the
    bomb-free twin's, and no 'about to evaluate' event may point inside the bomb"""
    R = random.Random(seed * 7919 + 0xC03); n = N(tier, 2500, 40000)
    T, F = "(ㅈㅈㅎㄱ)", "(ㄱㅈㅎㄱ)"
    def val(): return R.choice([E(R.randrange(-5, 6)), "(ㄴ ㄷ ㄷㅎㄷ)", "(ㄱ ㅁㅈㅎㄴ)", T, F, "(ㄴ ㄷ ㅁㄹㅎㄷ)"])
    def shape(hole):
        """returns a program text with `hole` placed in a position that must never be evaluated"""
        k = R.randrange(13) if R.random() < .6 else R.choice([12, 13, 13, 14, 15, 15]); v = val()
        if k == 0: return f"{v} {hole} (ㄱㅇㄱ ㅎ) ㅎㄷ", "unused-argument"
        if k == 1: return f"{hole} {v} (ㄴㅇㄱ ㅎ) ㅎㄷ", "unused-argument"
        if k == 2: return f"{v} {hole} {T} ㅎㄷ", "unselected-branch"
        if k == 3: return f"{hole} {v} {F} ㅎㄷ", "unselected-branch"
        if k == 4:   # Boolean ㄱ: some Trues, then a False, then the hole among further operands
            pre = [T] * R.randrange(0, 3); post = [R.choice([T, F, hole]) for _ in range(R.randrange(0, 3))]
            ops = pre + [F] + [hole] + post; return call("ㄱ", ops), f"all-after-false/{len(ops)}"
        if k == 5:
            pre = [F] * R.randrange(0, 3); post = [R.choice([T, F, hole]) for _ in range(R.randrange(0, 3))]
            ops = pre + [T] + [hole] + post; return call("ㄷ", ops), f"any-after-true/{len(ops)}"
        if k == 6: return call("ㅈㄷ", [call("ㅁㄹ", [v, hole, v])]), "len-of-list"
        if k == 7: return f"{E(R.choice([0, 2, -1]))} {call('ㅁㄹ', [v, hole, val()])} ㅎㄴ", "index-other-element"
        if k == 8: return f"{E(1)} {call('ㅅㅈ', [E(1), v, E(2), hole])} ㅎㄴ", "dict-other-value"
        if k == 9: return f"{v} ({hole} ㅎ) ㅅㄷㅎㄷ", "handler-not-needed"
        if k == 10: return f"({v} {hole} (ㄱㅇㄱ ㅎ) ㅎㄷ) ({hole} ㅎ) ㅅㄷㅎㄷ", "nested"
        if k == 12:   # list elements handed to functions that never look at them: folds (both directions), map, filter, pipe / collect / spread
            lst = call("ㅁㄹ", [v, hole, val()])          # the bomb is an INTERMEDIATE element: never the fold's result
            kk = R.randrange(10)
            if kk == 8: return call("ㅈㄷ", [call("ㅁㄷ", [lst, "ㅁㄹ"])]), "map-builtin-literal-len"          # ㅁㄹ is the built-in that does not look at its argument (ㄷㅂ and ㄱㅅ evaluate theirs)
            if kk == 9: return f"{E(R.choice([0, 2]))} {call('ㅁㄷ', [lst, 'ㅁㄹ'])} ㅎㄴ", "map-builtin-literal-other-element"
            if kk == 0: return call("ㅅㄹ", ["(ㄴㅇㄱ ㅎ)", lst]), "left-fold-ignores-accumulator"          # f(acc, x) = x
            if kk == 1: return call("ㅅㄹ", ["(ㄴ ㅎ)", E(0), lst]), "left-fold-constant"
            if kk == 2: return call("ㅅㄹ", [lst, "(ㄱㅇㄱ ㅎ)"]), "right-fold-ignores-accumulator"          # f(x, acc) = x
            if kk == 3: return call("ㅅㄹ", [lst, E(0), "(ㄴ ㅎ)"]), "right-fold-constant"
            if kk == 4: return call("ㅈㄷ", [call("ㅁㄷ", [lst, "(ㄴ ㅎ)"])]) , "map-constant-len"
            if kk == 5: return call("ㅁㄷ", [lst, "(ㄴ ㅎ)"]), "map-constant"
            if kk == 6: return call("ㅈㄷ", [call("ㅅㅂ", [lst, "(ㅈㅈㅎㄱ ㅎ)"])]), "filter-constant-len"
            return f"{v} {hole} {call('ㅂㅂ', ['ㅈㄷ'])} ㅎㄷ", "spread-len"
        if k == 13:   # containers handed to the exception constructor ㄷㅂ (shallowly strict): their elements stay delayed whatever is done with the exception value
            lst = call("ㅁㄹ", [v, hole, val()]); dct = call("ㅅㅈ", [E(1), v, E(2), hole]); kk = R.randrange(8)
            if kk == 0: return call("ㅈㄷ", [call("ㄷㅂ", [lst])]), "exception-of-list-len"
            if kk == 1: return call("ㅈㄷ", [f"({E(0)} {call('ㄷㅂ', [lst, val()])} ㅎㄴ)"]), "exception-of-list-payload-len"
            if kk == 2: return f"({E(R.choice([0, 2]))} ({E(0)} {call('ㄷㅂ', [lst])} ㅎㄴ) ㅎㄴ)", "exception-of-list-other-element"
            if kk == 3: return call("ㅈㄷ", [call("ㄷㅂ", [dct])]), "exception-of-dict-len"
            if kk == 4: return f"({E(1)} ({E(0)} {call('ㄷㅂ', [dct])} ㅎㄴ) ㅎㄴ)", "exception-of-dict-other-value"
            if kk == 5: return call("ㅈㄷ", [call("ㄷㅂ", [call("ㄷㅂ", [lst])])]), "exception-of-exception-len"
            if kk == 6: return f"({call('ㄷㅂ', [lst])} ㄷㅈㅎㄴ) (({E(0)} ({E(0)} ㄱㅇㄱ ㅎㄴ) ㅎㄴ) ㅎ) ㅅㄷㅎㄷ", "thrown-caught-first-element"
            return f"({call('ㄷㅂ', [dct, lst])} ㄷㅈㅎㄴ) ((ㄱㅇㄱ ㅈㄷㅎㄴ) ㅎ) ㅅㄷㅎㄷ", "thrown-caught-len"
        if k == 14:   # containers inside containers, and containers passed through functions that only measure them
            lst = call("ㅁㄹ", [v, hole, val()]); kk = R.randrange(5)
            if kk == 0: return call("ㅈㄷ", [call("ㅁㄹ", [lst, lst])]), "list-of-lists-len"
            if kk == 1: return f"({E(0)} ({E(1)} {call('ㅁㄹ', [val(), lst])} ㅎㄴ) ㅎㄴ)", "list-of-lists-other-element"
            if kk == 2: return f"{lst} ((ㄱㅇㄱ ㅈㄷㅎㄴ) ㅎ) ㅎㄴ", "function-measures-list"
            if kk == 3: return call("ㅈㄷ", [call("ㅅㅈ", [E(1), lst, E(2), hole])]), "dict-of-list-len"
            return f"({E(2)} ({E(1)} {call('ㅅㅈ', [E(1), lst])} ㅎㄴ) ㅎㄴ)", "dict-of-list-other-element"
        if k == 15:   # pipes (ㄴㄱ): what one stage returns - or is handed - and the NEXT stage never looks at; stages that only store or forward it
            kk = R.randrange(8); K = f"({v} ㅎ)"; ID = "(ㄱㅇㄱ ㅎ)"
            if kk == 0: return f"{v} (({hole}) ㅎ) {K} ㄴㄱㅎㄷ ㅎㄴ", "pipe-stage-result-ignored-by-next"
            if kk == 1: return f"{hole} {ID} {K} ㄴㄱㅎㄷ ㅎㄴ", "pipe-identity-then-constant"
            if kk == 2: return f"{hole} {ID} {ID} {K} ㄴㄱㅎㄹ ㅎㄴ", "pipe-two-identities-then-constant"
            if kk == 3: return f"({hole} {ID} (ㄱㅇㄱ {v} ㅁㄹㅎㄷ ㅎ) ㄴㄱㅎㄷ ㅎㄴ) ㅈㄷㅎㄴ", "pipe-stored-in-list-len"
            if kk == 4: return f"{v} (({hole}) ㅎ) (ㄱㅇㄱ {val()} ㅁㄹㅎㄷ ㅎ) (ㄱㅇㄱ ㅈㄷㅎㄴ ㅎ) ㄴㄱㅎㄹ ㅎㄴ", "pipe-result-stored-then-measured"
            if kk == 5: return f"{call('ㅁㄹ', [hole, v])} ((ㄴㅇㄱ ㅎ) ㅁㅂㅎㄴ) ㅎㄴ", "collect-other-argument"
            if kk == 6: return f"{call('ㅁㄹ', [v, hole])} ((ㄱㅇㄱ ㅎ) ㅁㅂㅎㄴ) {K} ㄴㄱㅎㄷ ㅎㄴ", "pipe-of-collect-then-constant"
            return f"{v} {hole} ((ㄱㅇㄱ ㅈㄷㅎㄴ ㅎ) ㅂㅂㅎㄴ) {ID} ㄴㄱㅎㄷ ㅎㄷ", "pipe-of-spread-len"
        inner, kk = shape(hole); return f"{inner} {hole} (ㄱㅇㄱ ㅎ) ㅎㄷ", "nested-" + kk
    cases = []; twins = []; kinds = collections.Counter()
    for _ in range(n):
        st = R.getstate(); bn = R.choice(list(BOMBS)); t, k = shape(BOMBS[bn]); R.setstate(st); R.choice(list(BOMBS)); tw, _ = shape(E(7))
        cases.append(dict(text=t, bomb=bn, stdin=["a"])); twins.append(dict(text=tw, stdin=["a"], trace=False)); kinds[k.split("/")[0] + ":" + bn] += 1
    a = impl_run(cases); b = impl_run(twins); bad = []
    import re as _re
    for c, x in zip(cases, a):          # direct oracle: no 'about to evaluate' event may point inside the marked sub-expression
        bt = BOMBS[c["bomb"]]; ranges = [(m.start(), m.end()) for m in _re.finditer(_re.escape(bt), c["text"])]
        inside = [ev for ev in x.split("\tEV ")[1].split() if ev.startswith("B") and any(lo <= int(ev.split("@")[1].split(":")[1]) and int(ev.split("@")[1].split(":")[2].split("#")[0]) <= hi for lo, hi in ranges)]
        if inside: bad.append(dict(program=c["text"], impl=f"evaluation events inside the marked sub-expression: {inside[:4]}", model="the marked sub-expression is never evaluated", which=["bomb-evaluated-" + c["bomb"]]))
    for c, x, y in zip(cases, a, b):
        if out_of(x) != out_of(y) and "TIMEOUT" not in x + y:
            bad.append(dict(program=c["text"], impl=str(out_of(x))[:200], model="the bomb-free twin gives " + str(out_of(y))[:200], which=["bomb-" + c["bomb"]]))
    r.slice("bombs_in_nonstrict_positions", len(cases), len({c["text"] for c in cases}), [cases[0]["text"], cases[1]["text"]], dict(kinds),
            "16 non-strict position shape families (incl. pipe / collect / spread stages) x 5 bombs; oracle: same (result, stdout, unread stdin) as the twin with a harmless literal in the marked position", bad[:40])
    if model_ok:
        m = model_run(cases); dist, bad2 = compare(cases, a, m)
        r.slice("bomb_programs_vs_model", len(cases), len({c["text"] for c in cases}), [cases[2]["text"]], dict(outcomes=dict(dist)), "the same programs, complete event trace vs the model (an evaluated bomb would add events)", bad2)

# ------------------------------------------------------------------ C10
FAULTS = {"division": ("(ㄴ ㄱ ㄴㄴㅎㄷ)", "5,-9"), "type": ("(ㄴ (ㄱ ㅁㅈㅎㄴ) ㄷㅎㄷ)", "5,0"), "range": ("(ㅂ (ㄴ ㄷ ㅁㄹㅎㄷ) ㅎㄴ)", "5,-5"),
          "user": ("(ㄹ ㅁ ㄷㅂㅎㄷ ㄷㅈㅎㄴ)", "3,4"), "user-nested": ("((ㄴ ㄷ ㅁㄹㅎㄷ) ㄷㅂㅎㄴ ㄷㅈㅎㄴ)", "?"), "value": ("(ㄴ ㄷ ㄹ ㅁㅈㅎㄹ)", "5,-39"),
          "notfound": ("(ㄹ (ㄴ ㄷ ㅅㅈㅎㄷ) ㅎㄴ)", "5,-60"), "arith": ("(ㄱ ㄴㄱ ㅅㅎㄷ)", "5,-9")}
def c10_faults(r, seed, tier, model_ok):
    """one fault (each built-in failure class, or a user exception with nested payload) planted at a random depth inside nested lists /
    dictionaries / exception VALUES / operator arguments, wrapped in 0..3 ㅅㄷ whose handlers return the exception, its code, a marker, or
    re-throw it: the handler must receive exactly the raised exception; uncaught faults keep their code list and location"""
    R = random.Random(seed * 7919 + 0xC10); n = N(tier, 4000, 80000)
    def ok(): return R.choice([E(R.randrange(0, 9)), "(ㄴ ㄷ ㄷㅎㄷ)", "(ㄱ ㅁㅈㅎㄴ)", "(ㅈㅈㅎㄱ)"])
    def wrap(x, d):
        """place x at depth d inside data that a try must fully evaluate"""
        if d <= 0: return x
        k = R.randrange(7); inner = wrap(x, d - 1)
        if k == 0: return call("ㅁㄹ", [ok()] * R.randrange(0, 2) + [inner] + [ok()] * R.randrange(0, 2))
        if k == 1: return call("ㄷㅂ", [inner] + [ok()] * R.randrange(0, 2))          # an exception VALUE (not thrown) with contents
        if k == 2: return call("ㅅㅈ", [E(1), ok(), E(2), inner])
        if k == 3: return call("ㅅㅈ", [inner, ok()]) if R.random() < .3 else call("ㅁㄹ", [call("ㅁㄹ", [inner])])
        if k == 4: return call("ㄷ", [inner, E(1)]) if d == 1 else call("ㅁㄹ", [inner, ok()])
        if k == 5: return f"({inner} (ㄱㅇㄱ ㅎ) ㅎㄴ)"                                  # through a function call
        return f"({E(0)} {call('ㅁㄹ', [inner])} ㅎㄴ)" if d == 1 else call("ㄷㅂ", [call("ㅁㄹ", [inner])])
    HANDLERS = {"identity": "(ㄱㅇㄱ ㅎ)", "code": "(ㄴ ㄱㅇㄱ ㅎㄴ ㅎ)", "marker": "(ㅈㅈㄱ ㅎ)", "rethrow": "(ㄱㅇㄱ ㄷㅈㅎㄴ ㅎ)", "length": "(ㄱㅇㄱ ㅈㄷㅎㄴ ㅎ)"}
    cases = []; kinds = collections.Counter()
    for _ in range(n):
        fn = R.choice(list(FAULTS)); body = wrap(FAULTS[fn][0], R.randrange(0, 4)) if R.random() < .85 else wrap(ok(), R.randrange(0, 3))
        t = body; hs = []
        for _ in range(R.randrange(0, 4)):
            h = R.choice(list(HANDLERS)); hs.append(h); t = f"({t} {HANDLERS[h]} ㅅㄷㅎㄷ)"
            if R.random() < .3: t = wrap(t, 1)
        if R.random() < .2: t = call("ㅁㄹ", [f"({t})", f"({t})"])
        if R.random() < .3:      # the SAME delayed expression (bound to a parameter) needed by two or three tries in turn, and once more outside any try
            uses = [f"(ㄱㅇㄱ {HANDLERS[R.choice(list(HANDLERS))]} ㅅㄷㅎㄷ)" for _ in range(R.randrange(2, 4))] + (["(ㄱㅇㄱ)"] if R.random() < .3 else [])
            R.shuffle(uses); t = f"({body}) ({call('ㅁㄹ', uses)} ㅎ) ㅎㄴ"; hs.append("shared")
        cases.append(dict(text=t)); kinds[fn + "/" + "+".join(hs[:2])] += 1
    a = impl_run(cases)
    # oracle 1: a try with the marker handler around a faulty body must yield the marker
    orc = []; oc = []
    for _ in range(N(tier, 1500, 30000)):
        fn = R.choice(list(FAULTS)); body = wrap(FAULTS[fn][0], R.randrange(0, 4))
        oc.append(dict(text=f"{body} (ㅈㅈㄱ ㅎ) ㅅㄷㅎㄷ", trace=False)); orc.append(("V 63", fn))
        if FAULTS[fn][1] not in ("?",) and fn != "user":
            oc.append(dict(text=f"{body} (ㄴ ㄱㅇㄱ ㅎㄴ ㅎ) ㅅㄷㅎㄷ", trace=False)); orc.append(("V " + FAULTS[fn][1].split(",")[1], fn))
    # a THROWN user exception whose contents hold a delayed failing part (inside a list / dictionary / nested exception): throwing does not look
    # inside, so the handler receives the user's exception - its first element 7 - not the failure of the part nobody asked for
    for fn in FAULTS:
        F = FAULTS[fn][0]
        for payload, pk in ((call("ㅁㄹ", [F]), "list"), (call("ㅅㅈ", [E(1), F]), "dict"), (call("ㄷㅂ", [call("ㅁㄹ", [F])]), "exception"), (call("ㅁㄹ", [E(3), call("ㅁㄹ", [F, E(4)])]), "nested-list")):
            thrown = f"({E(7)} {payload} ㄷㅂㅎㄷ ㄷㅈㅎㄴ)"
            for t, w in ((f"{thrown} (ㄱ ㄱㅇㄱ ㅎㄴ ㅎ) ㅅㄷㅎㄷ", "V 7"), (f"{thrown} ((ㄱㅇㄱ ㅈㄷㅎㄴ) ㅎ) ㅅㄷㅎㄷ", "V 2"), (f"({thrown} ((ㄱㅇㄱ ㄷㅈㅎㄴ) ㅎ) ㅅㄷㅎㄷ) (ㄱ ㄱㅇㄱ ㅎㄴ ㅎ) ㅅㄷㅎㄷ", "V 7"),
                         (f"(ㄱ ㄱㅅㅎㄴ) ({thrown} ㅎ) ㄱㄹㅎㄷ (ㄱㅇㄱ ㄱㅅㅎㄴ ㅎ) ((ㄱ ㄱㅇㄱ ㅎㄴ ㄱㅅㅎㄴ) ㅎ) ㄱㄹㅎㄹ", "V 7")):
                oc.append(dict(text=t, trace=False)); orc.append((w, f"thrown-with-lazy-{pk}-{fn}"))
    # the reject handler of ㄱㄹ is for failures of the BOUND ACTION only: when the bound action succeeds the handler is irrelevant, so a continuation
    # that fails the moment it is applied (a bare built-in, a list / Boolean / dictionary used as continuation, a literal naming no built-in)
    # must give, WITH a handler, exactly the outcome of the same bind WITHOUT one (same class and code list) - the handler never sees it
    tw3 = []; tw2 = []
    for first in ("(ㄱ ㄴ ㄷㅂㅎㄷ ㄱㅅㅎㄴ)", "((ㄹ (ㄱ ㄴ ㄷㅂㅎㄷ) ㄷㅂㅎㄷ) ㄱㅅㅎㄴ)", "(ㄱ ㄱㅅㅎㄴ)", "(ㄷ ㄱㅅㅎㄴ)", "(ㄴ ㄷㅂㅎㄴ ㄱㅅㅎㄴ)", "((ㄱ ㄴ ㅁㄹㅎㄷ) ㄱㅅㅎㄴ)", "(ㄹㅎㄱ)", "((ㄱ ㅁㅈㅎㄴ) ㅈㄹㅎㄴ)"):
        for cont in ("ㄷㅈ", "ㅈㄹ", "ㄱㅅ", "ㅁㅈ", "ㅈㄷ", "ㄴㄱ", "ㅂ", "ㅁㅁㅁㅁ", "(ㄴ ㄷ ㅁㄹㅎㄷ)", "(ㄴ ㅁㄹㅎㄴ)", "(ㅈㅈㅎㄱ)", "(ㄱㅈㅎㄱ)", "(ㄱ ㄴ ㅅㅈㅎㄷ)", "(ㄱ ㅁㅈㅎㄴ)", "(ㄱ ㄷㅂㅎㄴ)", "(ㄱㅇㄱ ㄷㅈㅎㄴ ㅎ)", "(ㄱㅇㄱ ㄱㅅㅎㄴ ㅎ)", "(ㄱㅇㄱ ㅎ)", "(ㄱ ㄱㅇㄱ ㄴㄴㅎㄷ ㄱㅅㅎㄴ ㅎ)"):
            for hd in ("(ㄴㄱ ㄱㅅㅎㄴ ㅎ)", "((ㄱㅇㄱ ㅈㄷㅎㄴ ㄱㅅㅎㄴ) ㅎ)", "ㄱㅅ"):
                tw3.append(dict(text=f"{first} {cont} {hd} ㄱㄹㅎㄹ", trace=False)); tw2.append(dict(text=f"{first} {cont} ㄱㄹㅎㄷ", trace=False))
    def _cls(o): return decode_v(o.split("\t")[0]).split(" @")[0][:200]
    t3 = impl_run(tw3); t2 = impl_run(tw2)
    badt = [dict(program=c3["text"], impl=_cls(o3), model=f"{_cls(o2)} (what the same bind gives without a handler: `{c2['text']}`; the bound action succeeds, so its handler must not run)", which=["bind-handler-scope"])
            for c3, c2, o3, o2 in zip(tw3, tw2, t3, t2) if _cls(o3) != _cls(o2)]
    r.slice("bind_handler_scope", len(tw3), len({c["text"] for c in tw3}), [tw3[0]["text"]], dict(collections.Counter(_cls(o).split(" ")[0] for o in t3)),
            "a bind whose bound action succeeds, with a continuation that fails or not the moment it is applied (bare built-ins, non-function callables, unknown names): with a reject handler = without one", badt[:40])
    oa = impl_run(oc)
    bad = [dict(program=c["text"], impl=decode_v(o.split("\t")[0])[:200], model=f"{w[0]} (the handler gets the {w[1]} failure raised inside the data the try must fully evaluate)", which=["try-delivers"])
           for c, o, w in zip(oc, oa, orc) if decode_v(o.split("\t")[0]) != w[0]]
    r.slice("planted_faults_oracle", len(oc), len({c["text"] for c in oc}), [oc[0]["text"]], dict(collections.Counter(w[1] for w in orc)),
            "a fault at depth 0..3 inside lists / dicts / exception values / calls under one ㅅㄷ: the handler must run and see the failure class code", bad[:40])
    if model_ok:
        m = model_run(cases); dist, bad2 = compare(cases, a, m)
        r.slice("planted_faults_vs_model", len(cases), len({c["text"] for c in cases}), [cases[0]["text"], cases[1]["text"]], dict(outcomes=dict(dist), kinds=len(kinds)),
                "fault kind x nesting x 0..3 try layers x handler kinds; result, error code list, ALL location spans and event trace vs the model", bad2)


def c10_import_faults(r, seed, tier, model_ok):
    """the one failure class whose code equals the marker (import failure, code 5): ambiguous / missing / empty / two-expression / undecodable /
    unknown built-in modules raised under ㅅㄷ with handlers that return the exception, its marker, its class code, its length, or re-throw it,
    and under the reject handler of ㄱㄹ: the handler must receive exactly [5, 5] (and [5, -60] for names that resolve to nothing)"""
    import os, shutil
    parse, interpret, AS, M = vlib.mods()
    from pbhhg_py.builtins import module as MOD
    from slices_world import scratch, st
    R = random.Random(seed * 7919 + 0xC10 + 7); SCR = scratch("c10i"); cwd = os.getcwd(); bad = []; cnt = collections.Counter(); n = 0
    def ev(text):
        MOD._MODULE_REGISTRY.clear()
        try: return "V " + interpret.evaluate(M.formatter(AS.Expr(parse.parse("<t>", text)[0], AS.Env([], [])), False))
        except AS.UnsuspectedHangeulError as e: return "E " + ",".join(str(v.value) if isinstance(v, AS.Integer) else "?" for v in e.err.value)
        except BaseException as e: return vlib.host_site(e)
    try:
        os.chdir(SCR)
        open("empty", "w").write(""); open("two", "w").write("ㄱ ㄴ"); open("ㅁ", "w").write("ㄱ"); open("ㅁㅏ", "w").write("ㄴ"); open("latin", "wb").write(b"\xff\xfe\xb0")
        progs = [("ambiguous", "(ㅁ ㅂㅎㄴ)", 5), ("missing-literal", "(ㅅ ㅈ ㅂㅎㄷ)", -60), ("missing-path", f"({st('nope/none')} ㅂㅎㄴ)", None), ("empty", f"({st('empty')} ㅂㅎㄴ)", None),
                 ("two-expressions", f"({st('two')} ㅂㅎㄴ)", None), ("undecodable", f"({st('latin')} ㅂㅎㄴ)", 5), ("unknown-builtin", "(ㅂ ㄴㄴㄴ ㅂㅎㄷ)", -60)]
        wraps = [("identity", "{p} ((ㄱㅇㄱ) ㅎ) ㅅㄷㅎㄷ", "V <예외: [5, 5]>"), ("marker", "{p} ((ㄱ ㄱㅇㄱ ㅎㄴ) ㅎ) ㅅㄷㅎㄷ", "V 5"), ("class-code", "{p} ((ㄴ ㄱㅇㄱ ㅎㄴ) ㅎ) ㅅㄷㅎㄷ", "V 5"),
                 ("length", "{p} ((ㄱㅇㄱ ㅈㄷㅎㄴ) ㅎ) ㅅㄷㅎㄷ", "V 2"), ("rethrow", "({p} ((ㄱㅇㄱ ㄷㅈㅎㄴ) ㅎ) ㅅㄷㅎㄷ)", "E 5,5"), ("uncaught", "{p}", "E 5,5"),
                 ("inside-list", "({p} ㄱ ㅁㄹㅎㄷ) ((ㄱㅇㄱ ㅈㄷㅎㄴ) ㅎ) ㅅㄷㅎㄷ", "V 2"),
                 ("bind-reject", "(({p} ㄱㅅㅎㄴ) (ㄱㅇㄱ ㄱㅅㅎㄴ ㅎ) ㄱㄹㅎㄷ)", "E 5,5"),
                 ("action-reject", "(((ㄱ ㄱㅅㅎㄴ) ({p} ㅎ) ㄱㄹㅎㄷ) (ㄱㅇㄱ ㄱㅅㅎㄴ ㅎ) ((ㄱㅇㄱ ㅈㄷㅎㄴ ㄱㅅㅎㄴ) ㅎ) ㄱㄹㅎㄹ)", "V 2")]
        for what, p, code in progs:
            base = ev(p); parts = base[2:].split(",") if base.startswith("E ") else []
            okbase = len(parts) >= 2 and parts[0] == "5" and all(x.lstrip("-").isdigit() for x in parts) and (code is None or parts[1] == str(code))
            n += 1; cnt[what + "/uncaught"] += 1
            if not okbase:
                bad.append(dict(program=p + "   (cwd holds: empty, two, ㅁ, ㅁㅏ, latin)", impl=base, model=f"a language-level exception [5, {code if code is not None else 'class code'}, ...] ({what})", which=["import-failure-contents"])); continue
            lst = "[" + ", ".join(parts) + "]"
            for wn, w, want in wraps:
                want = {"identity": f"V <예외: {lst}>", "marker": "V 5", "class-code": f"V {parts[1]}", "length": f"V {len(parts)}", "rethrow": base, "uncaught": base,
                        "inside-list": f"V {len(parts)}", "bind-reject": base, "action-reject": f"V {len(parts)}"}[wn]
                t = w.replace("{p}", p); got = ev(t); n += 1; cnt[what + "/" + wn] += 1
                if got != want: bad.append(dict(program=t + "   (cwd holds: empty, two, ㅁ, ㅁㅏ, latin)", impl=got, model=f"{want}  (the handler receives exactly what the failure raises uncaught: {base}; {what} under {wn})", which=["import-failure-contents"]))
    finally:
        os.chdir(cwd); shutil.rmtree(SCR, ignore_errors=True); MOD._MODULE_REGISTRY.clear()
    if model_ok:          # the same programs through the main model (module files on the model's disk): result, error location, complete event trace
        FILES = {"empty": b"", "two": "ㄱ ㄴ".encode(), "ㅁ": "ㄱ".encode(), "ㅁㅏ": "ㄴ".encode(), "latin": b"\xff\xfe\xb0"}
        mc = [dict(text=w.replace("{p}", p), files=FILES) for _, p, _ in progs for _, w, _ in wraps]
        ma = vlib.impl_run(mc); mb = vlib.model_run(mc, tlimit=10); mdist, mbad = vlib.compare(mc, ma, mb)
        r.slice("import_failures_vs_model", len(mc), len({c["text"] for c in mc}), [mc[0]["text"]], dict(outcomes=dict(mdist)), "the same import failures under the same handlers: interpreter in a directory holding the files vs run_main_fs on a disk holding them", mbad)
    r.slice("import_failures_under_handlers", n, n, ["(ㅁ ㅂㅎㄴ) ((ㄴ ㄱㅇㄱ ㅎㄴ) ㅎ) ㅅㄷㅎㄷ"], dict(cnt), "7 kinds of import failure x 9 handler contexts: contents must be exactly [5, class code] - [5, 5] for import failures proper, [5, -60] for a name that resolves to nothing", bad[:40])
