"""Probe: Spec/Jamo.v from Unicode names (independent oracle)."""
import unicodedata, re
ATOMS = {}
def reg(target, *names):
    for n in names: ATOMS[n] = target
G,N_,D,L,M,B,S,O,J,H = [ord(c) for c in "ㄱㄴㄷㄹㅁㅂㅅㅇㅈㅎ"]
reg([G],"KIYEOK","SSANGKIYEOK","KHIEUKH"); reg([N_],"NIEUN","SSANGNIEUN"); reg([D],"TIKEUT","SSANGTIKEUT","THIEUTH","SSANGTHIEUTH")
reg([L],"RIEUL","SSANGRIEUL","KAPYEOUNRIEUL"); reg([M],"MIEUM","KAPYEOUNMIEUM")
reg([B],"PIEUP","SSANGPIEUP","PHIEUPH","KAPYEOUNPIEUP","KAPYEOUNSSANGPIEUP","KAPYEOUNPHIEUPH")
reg([S],"SIOS","SSANGSIOS","PANSIOS","CHITUEUMSIOS","CHITUEUMSSANGSIOS","CEONGCHIEUMSIOS","CEONGCHIEUMSSANGSIOS")
reg([32,O],"IEUNG","SSANGIEUNG","YESIEUNG")
reg([J],"CIEUC","SSANGCIEUC","CHIEUCH","CHITUEUMCIEUC","CHITUEUMSSANGCIEUC","CEONGCHIEUMCIEUC","CEONGCHIEUMSSANGCIEUC","CHITUEUMCHIEUCH","CEONGCHIEUMCHIEUCH")
reg([32,H],"HIEUH","SSANGHIEUH","YEORINHIEUH","SSANGYEORINHIEUH")
rng = [(0x1100,0x115E),(0x3131,0x314E),(0x3165,0x3186),(0xA960,0xA97C),(0xFFA1,0xFFBE)]
rows = []
for lo,hi in rng:
    for cp in range(lo,hi+1):
        m = re.match(r"(?:HALFWIDTH )?HANGUL (?:CHOSEONG|LETTER) (.*)$", unicodedata.name(chr(cp)))
        out = [x for a in m.group(1).split("-") for x in ATOMS[a]]
        rows.append((cp, out))
with open("Jamo.v","w") as f:
    f.write("From Coq Require Import NArith List.\nImport ListNotations.\nOpen Scope N_scope.\n")
    f.write("Definition consonant_table : list (N * list N) := [\n  " + ";\n  ".join(f"({cp}, [{'; '.join(map(str,o))}])" for cp,o in rows) + "].\n")
print(len(rows))
